#!/usr/bin/env python3
import json, sys, glob, jsonschema
sch = json.load(open('/root/.vp/EVIDENCE.schema.json'))
bad = 0
for f in sorted(glob.glob('/verif/evidence/*.json')):
    try:
        e = json.load(open(f)); jsonschema.validate(e, sch)
        c = e['coverage']
        print(f.split('/')[-1], 'ok', e['level'], e['tier'], 'evals', c.get('evaluations'), 'nontrivial', c.get('distinct_nontrivial'), 'exh', c.get('exhaustive'), 'wall', round(e['wall_s'], 1), 'viol', e.get('violations'))
    except Exception as ex:
        bad += 1; print(f, 'INVALID', str(ex)[:300])
sys.exit(1 if bad else 0)
