#!/bin/bash
# dev helper: run every claimed check at a tier, print a one-line summary each
tier=${1:-quick}
for id in $(python3 -c "import json;print(' '.join(c['property_id'] for c in json.load(open('/verif/MANIFEST.json'))['checks']))"); do
  s=$(date +%s); out=$(/verif/h/bin/vcheck $id --tier $tier 2>&1); rc=$?; e=$(date +%s)
  echo "$id rc=$rc $((e-s))s $(echo "$out" | grep -c '^KNOWN-FINDING') known; $(echo "$out" | grep -v KNOWN | tail -1 | cut -c1-160)"
done
