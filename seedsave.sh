#!/bin/bash
# seedsave.sh <name> <srcdir/_out> <property> <caught-by> <needs...>
name=$1; src=$2; prop=$3; caught=$4; shift 4; needs="$*"
d=/verif/seeded/$name; mkdir -p $d; cp $src/patch.diff $d/; cp $src/*.go $src/README.md $d/ 2>/dev/null
for f in $d/*_test.go; do [ -f "$f" ] && mv "$f" "${f%.go}.go.txt"; done   # keep demos out of any go build
python3 - "$name" "$prop" "$caught" "$needs" <<'PY'
import json,sys,subprocess
name,prop,caught,needs=sys.argv[1:5]
head=subprocess.check_output(['git','-C','/repo','rev-parse','--short','HEAD']).decode().strip()
json.dump({"id":name,"breaks_property":prop,"needs_to_manifest":needs,"author":"independent sub-agent (saw only the property text and a scratch worktree)" if not name.startswith('own') else "own",
 "applies_to_repo_commit":head,
 "confirmed":{"baseline_suite_with_patch":"all packages ok except the root package's baseline licenses.db failure (seedcheck.sh)","demo":"fails with the patch, passes without it (see README.md)"},
 "caught_by":caught,"ran":"/verif/seedcheck.sh /verif/seeded/%s/patch.diff %s"%(name,prop)},open('/verif/seeded/%s/meta.json'%name,'w'),indent=1)
PY
ls $d
