#!/bin/bash
# usage: mut.sh <patchfile|-e 'sed expr' file> -- <check ids...>   (dev helper: apply a change to /repo, run baseline tests of v2 + checks, revert)
set -u
if [ -n "$(git -C /repo status --porcelain)" ]; then echo "mut.sh: /repo is dirty, refusing"; exit 9; fi
export GOFLAGS=-mod=mod GOPROXY=off GOSUMDB=off GOTOOLCHAIN=local
if [ "$1" = "-e" ]; then sed -i "$2" "/repo/$3"; shift 3; else git -C /repo apply "$1" || exit 3; shift; fi
[ "$1" = "--" ] && shift
git -C /repo diff --stat | tail -1
if [ "${SKIPBASE:-0}" != 1 ]; then
for m in . v2; do (cd /repo/$m && go test -vet=off -count=1 ./... 2>&1 | grep -v "^ok\|no test files" | grep -v "licenseclassifier\s" | head -5); done
git -C /repo checkout -- go.sum v2/go.sum 2>/dev/null
fi
for id in "$@"; do /verif/h/bin/vcheck $id ${TIER:+--tier $TIER} 2>&1 | cut -c1-400 | head -${LINES_:-8}; done
git -C /repo checkout -- .
git -C /repo status --short
