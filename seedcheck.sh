#!/bin/bash
# dev helper: verify a seeded change and run checks against it, in a scratch worktree (never /repo).
#   [DEMO=<file> DEMODIR=<pkg dir> [DEMORUN=<regex>] [DEMORACE=1]] [TIER=thorough] seedcheck.sh <patch.diff> <check ids...>
# 1. fresh scratch worktree of /repo HEAD + patch: builds, baseline suites (all but the root package) pass
# 2. optional demo: fails with the patch, passes without
# 3. the listed checks run against the patched worktree (VERIF_REPO), evidence/replays go to /verif/.work
set -u
export GOFLAGS=-mod=mod GOPROXY=off GOSUMDB=off GOTOOLCHAIN=local
patch=$(readlink -f "$1"); shift
wt=/tmp/sc_wt_$$
git -C /repo worktree add -q $wt HEAD || exit 3
trap 'git -C /repo worktree remove --force '$wt' 2>/dev/null' EXIT
( cd $wt && git apply "$patch" ) || { echo "PATCH DOES NOT APPLY"; exit 4; }
echo "== baseline suites with the patch"
( cd $wt && go build ./... && go test -vet=off -count=1 ./... 2>&1 | grep -v "no test files" | grep -v "^ok" | grep -v "licenses.db" | grep -v "^FAIL$" | grep -v "FAIL	github.com/google/licenseclassifier	" | head -5 )
( cd $wt/v2 && go build ./... && go test -vet=off -count=1 ./... 2>&1 | grep -v "no test files" | grep -v "^ok" | head -5 )
( cd $wt && git checkout -q -- go.sum v2/go.sum 2>/dev/null )
if [ -n "${DEMO:-}" ]; then
  echo "== demo ($DEMO in $DEMODIR): with the patch (must FAIL), without (must pass)"
  cp "$DEMO" $wt/$DEMODIR/zz_seed_demo_test.go
  DEMORUN=${DEMORUN:-"^($(grep -oE '^func (Test[A-Za-z0-9_]+)' "$DEMO" | sed 's/func //' | paste -sd'|'))\$"}
  mod=$wt; case "$DEMODIR" in v2*) mod=$wt/v2;; esac
  rel=./${DEMODIR#v2}; rel=${rel%/}; [ "$rel" = "." ] && rel=./
  ( cd $mod && go test ${DEMORACE:+-race} -vet=off -count=1 -run "$DEMORUN" $rel 2>&1 | tail -3 | cut -c1-200 )
  ( cd $wt && git apply -R "$patch" )
  ( cd $mod && go test ${DEMORACE:+-race} -vet=off -count=1 -run "$DEMORUN" $rel 2>&1 | tail -2 | cut -c1-200 )
  rm -f $wt/$DEMODIR/zz_seed_demo_test.go
  ( cd $wt && git apply "$patch" && git checkout -q -- go.sum v2/go.sum 2>/dev/null )
fi
echo "== checks against the patched worktree"
for id in "$@"; do
  out=$(VERIF_REPO=$wt /verif/h/bin/vcheck $id ${TIER:+--tier $TIER} ${ONLY:+--only "$ONLY"} 2>&1); rc=$?
  echo "$id rc=$rc: $(echo "$out" | grep -c '^VIOLATION') violation lines"; echo "$out" | grep -A1 '^VIOLATION' | grep 'what:' | head -${LINES_:-2} | cut -c1-400
  [ $rc -eq 2 ] && echo "$out" | tail -5 | cut -c1-300
done
