#!/bin/bash
# dev helper: verify a seeded change and run checks against it.
#   seedcheck.sh <patch.diff> <check ids...>
# 1. fresh scratch worktree of /repo HEAD + patch: builds, baseline suites (all but the root package) pass
# 2. patch applied to /repo, listed checks run, patch undone
set -u
export GOFLAGS=-mod=mod GOPROXY=off GOSUMDB=off GOTOOLCHAIN=local
patch=$1; shift
if [ -n "$(git -C /repo status --porcelain)" ]; then echo "seedcheck: /repo is dirty"; exit 9; fi
wt=/tmp/sc_wt_$$
git -C /repo worktree add -q $wt HEAD || exit 3
( cd $wt && git apply "$patch" ) || { echo "PATCH DOES NOT APPLY"; git -C /repo worktree remove --force $wt; exit 4; }
echo "== baseline suites with the patch"
( cd $wt && go build ./... && go test -vet=off -count=1 ./... 2>&1 | grep -v "no test files" | grep -v "^ok" | grep -v "licenses.db" | grep -v "^FAIL$" | grep -v "FAIL	github.com/google/licenseclassifier	" | head -5 )
( cd $wt/v2 && go build ./... && go test -vet=off -count=1 ./... 2>&1 | grep -v "no test files" | grep -v "^ok" | head -5 )
if [ -n "${DEMO:-}" ]; then
  echo "== demo ($DEMO in $DEMODIR): with the patch (must FAIL), without (must pass)"
  cp "$DEMO" $wt/$DEMODIR/zz_seed_demo_test.go
  DEMORUN=${DEMORUN:-"^($(grep -oE '^func (Test[A-Za-z0-9_]+)' "$DEMO" | sed 's/func //' | paste -sd'|'))\$"}
  mod=$wt; case "$DEMODIR" in v2*) mod=$wt/v2;; esac
  rel=./${DEMODIR#v2}; rel=${rel%/}; [ "$rel" = "." ] && rel=./
  ( cd $mod && go test ${DEMORACE:+-race} -vet=off -count=1 -run "${DEMORUN:-Demo}" $rel 2>&1 | tail -3 | cut -c1-200 )
  ( cd $wt && git apply -R "$patch" )
  ( cd $mod && go test ${DEMORACE:+-race} -vet=off -count=1 -run "${DEMORUN:-Demo}" $rel 2>&1 | tail -2 | cut -c1-200 )
fi
git -C /repo worktree remove --force $wt
echo "== checks with the patch applied to /repo"
git -C /repo apply "$patch" || exit 5
for id in "$@"; do
  out=$(/verif/h/bin/vcheck $id ${TIER:+--tier $TIER} 2>&1); rc=$?
  echo "$id rc=$rc: $(echo "$out" | grep -c '^VIOLATION') violation lines"; echo "$out" | grep -A1 '^VIOLATION' | grep 'what:' | head -${LINES_:-2} | cut -c1-400
  [ $rc -eq 2 ] && echo "$out" | tail -5 | cut -c1-300
done
git -C /repo checkout -- . ; git -C /repo status --short
