// Package vx is the explorer core.
package vx
