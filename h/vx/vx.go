// Package vx is the explorer core: a stateless depth-first search over the
// choice points of a deterministic harness body.
//
// A body is ordinary Go that calls Run.Choose (free alternatives: input
// enumeration), Run.Deviate (alternative k>0 costs 1: an environment answer
// departing from the default) or Run.ChooseCost (explicit cost table:
// scheduler policies) wherever something other than the code under test takes
// a decision. Explore executes the body once per leaf of the choice tree whose
// total cost stays within Budget. Every execution is a pure function of its
// choice list, which is the replay artefact.
package vx

import (
	"fmt"
	"strings"
)

// Divergence is raised (as a panic) when a body asks for a choice that does
// not fit the prefix it is replaying: the body is not deterministic.
type Divergence struct{ Msg string }

func (d Divergence) Error() string { return "vx: replay divergence: " + d.Msg }

type point struct {
	n     int   // number of alternatives
	kind  uint8 // 0 free, 1 deviation (k>0 costs 1), 2 delay (k costs k), 3 table
	costs []int // kind 3
}

func (p *point) cost(k int) int {
	switch p.kind {
	case 0:
		return 0
	case 1:
		if k > 0 {
			return 1
		}
		return 0
	case 2:
		return k
	}
	return p.costs[k]
}

// Run is one execution of a body.
type Run struct {
	prefix  []int
	Choices []int
	points  []point
	Labels  []string
	labels  bool
	spent   int
	scout   bool
	// Note is free for the body: anything it wants to report about this run.
	Note map[string]interface{}
}

func (r *Run) choose(p point, label string) int {
	i := len(r.Choices)
	k := 0
	if i < len(r.prefix) {
		k = r.prefix[i]
		if k < 0 || k >= p.n {
			panic(Divergence{fmt.Sprintf("choice %d at point %d (%s) out of range 0..%d", k, i, label, p.n-1)})
		}
	}
	r.Choices = append(r.Choices, k)
	r.points = append(r.points, p)
	if r.labels {
		r.Labels = append(r.Labels, label)
	}
	r.spent += p.cost(k)
	return k
}

// Choose returns one of n free alternatives (n>=1).
func (r *Run) Choose(n int, label string) int {
	if n < 1 {
		panic(Divergence{"Choose with n<1 at " + label})
	}
	return r.choose(point{n: n}, label)
}

// Deviate returns 0 by default; every alternative k>0 costs one unit of budget.
func (r *Run) Deviate(n int, label string) int {
	if n < 1 {
		panic(Divergence{"Deviate with n<1 at " + label})
	}
	return r.choose(point{n: n, kind: 1}, label)
}

// Delay returns 0 by default; alternative k costs k units (delay bounding).
func (r *Run) Delay(n int, label string) int {
	if n < 1 {
		panic(Divergence{"Delay with n<1 at " + label})
	}
	return r.choose(point{n: n, kind: 2}, label)
}

// ChooseCost takes an explicit cost per alternative; costs must be
// non-decreasing is NOT required: every alternative is tested individually.
func (r *Run) ChooseCost(costs []int, label string) int {
	if len(costs) < 1 {
		panic(Divergence{"ChooseCost with no alternative at " + label})
	}
	return r.choose(point{n: len(costs), kind: 3, costs: costs}, label)
}

// Scout reports that this execution only serves to discover the shape of a
// subtree owned by another shard: once the body has made its choices down to
// the explorer's SplitDepth it may return without doing the expensive work
// (the execution is not reported to Visit).
func (r *Run) Scout() bool { return r.scout }

// Spent is the budget used so far in this execution.
func (r *Run) Spent() int { return r.spent }

// Depth is the number of choice points passed so far.
func (r *Run) Depth() int { return len(r.Choices) }

// Explorer enumerates the executions of a body.
type Explorer struct {
	Budget int // maximal total cost of an execution
	// Shard/Shards partition the exploration: the alternatives of the FIRST
	// choice point are dealt round-robin to shards (Shards<=1: no sharding).
	Shard, Shards int
	// SplitDepth>0 shards on subtrees rooted at that depth instead (all
	// workers enumerate the same frontier; one scouting execution is spent
	// per foreign subtree and is not reported to Visit).
	SplitDepth int
	WantLabels bool
	// MaxExecutions>0 caps the run; Capped reports whether the cap was hit.
	MaxExecutions int64
	// Stop is polled between executions; returning true ends the run early
	// (reported through Capped).
	Stop func() bool

	Executions int64
	Scouts     int64
	MaxDepth   int
	Capped     bool
}

// Replay executes body on exactly the given choice list (no search). Choices
// beyond the list default to 0.
func Replay(choices []int, body func(*Run)) *Run {
	r := &Run{prefix: choices, labels: true}
	body(r)
	if len(r.Choices) < len(choices) {
		panic(Divergence{fmt.Sprintf("body consumed %d of %d recorded choices", len(r.Choices), len(choices))})
	}
	return r
}

// Explore runs body on every choice list within budget, calling visit after
// each execution. visit may be nil.
func (e *Explorer) Explore(body func(*Run), visit func(*Run)) {
	var prefix []int
	subtree := int64(-1)
	mine := true
	for {
		if e.Stop != nil && e.Stop() {
			e.Capped = true
			return
		}
		if e.MaxExecutions > 0 && e.Executions >= e.MaxExecutions {
			e.Capped = true
			return
		}
		// subtree accounting for SplitDepth sharding: a prefix no longer than
		// SplitDepth (the initial one, or one produced by backtracking above
		// that depth) starts a new subtree.
		if e.Shards > 1 && e.SplitDepth > 0 && len(prefix) <= e.SplitDepth {
			subtree++
			mine = int(subtree%int64(e.Shards)) == e.Shard
		}
		r := &Run{prefix: prefix, labels: e.WantLabels, scout: !mine}
		if e.Shards > 1 && e.SplitDepth == 0 && len(prefix) == 0 {
			// first execution: start at this shard's first alternative, which
			// requires knowing the first point; run with forced first choice.
			r.prefix = []int{e.Shard}
			ok := e.tryRun(r, body)
			if !ok {
				return // first point has fewer alternatives than shards
			}
		} else {
			body(r)
		}
		if len(r.Choices) < len(prefix) {
			panic(Divergence{fmt.Sprintf("body consumed %d of %d prefix choices", len(r.Choices), len(prefix))})
		}
		if mine {
			e.Executions++
			if len(r.Choices) > e.MaxDepth {
				e.MaxDepth = len(r.Choices)
			}
			if visit != nil {
				visit(r)
			}
		} else {
			e.Scouts++
		}
		// backtrack: last position with an untried alternative within budget
		limit := len(r.Choices)
		if !mine && limit > e.SplitDepth {
			limit = e.SplitDepth
		}
		next := e.backtrack(r, limit)
		if next == nil {
			return
		}
		prefix = next
	}
}

func (e *Explorer) tryRun(r *Run, body func(*Run)) (ok bool) {
	defer func() {
		if x := recover(); x != nil {
			if d, isd := x.(Divergence); isd && strings.Contains(d.Msg, "at point 0 ") {
				ok = false
				return
			}
			panic(x)
		}
	}()
	body(r)
	return true
}

func (e *Explorer) backtrack(r *Run, limit int) []int {
	// cumulative cost before each position
	cum := make([]int, len(r.Choices)+1)
	for i, k := range r.Choices {
		cum[i+1] = cum[i] + r.points[i].cost(k)
	}
	for i := limit - 1; i >= 0; i-- {
		p := &r.points[i]
		step := 1
		if i == 0 && e.Shards > 1 && e.SplitDepth == 0 {
			step = e.Shards
		}
		for alt := r.Choices[i] + step; alt < p.n; alt += step {
			if cum[i]+p.cost(alt) <= e.Budget {
				next := make([]int, i+1)
				copy(next, r.Choices[:i])
				next[i] = alt
				return next
			}
		}
	}
	return nil
}
