package vx

import "testing"

func count(e *Explorer, body func(*Run)) int64 {
	e.Explore(body, nil)
	return e.Executions
}

func TestEnumeration(t *testing.T) {
	body := func(r *Run) {
		n := r.Choose(4, "len")
		for i := 0; i < n; i++ {
			r.Choose(3, "sym")
		}
	}
	if got := count(&Explorer{}, body); got != 1+3+9+27 {
		t.Fatalf("got %d", got)
	}
	var total int64
	for w := 0; w < 3; w++ {
		total += count(&Explorer{Shard: w, Shards: 3}, body)
	}
	if total != 40 {
		t.Fatalf("sharded total %d", total)
	}
	total = 0
	for w := 0; w < 5; w++ {
		total += count(&Explorer{Shard: w, Shards: 5, SplitDepth: 2}, body)
	}
	if total != 40 {
		t.Fatalf("split-sharded total %d", total)
	}
}

func TestBudget(t *testing.T) {
	body := func(r *Run) {
		for i := 0; i < 5; i++ {
			r.Deviate(3, "d")
		}
	}
	// budget b: sum_{j<=b} C(5,j)*2^j
	want := []int64{1, 11, 51}
	for b, w := range want {
		if got := count(&Explorer{Budget: b}, body); got != w {
			t.Fatalf("budget %d: got %d want %d", b, got, w)
		}
	}
	delay := func(r *Run) {
		for i := 0; i < 3; i++ {
			r.Delay(3, "d")
		}
	}
	// sequences in {0,1,2}^3 with sum<=2: 1+3+ (3+3)=10
	if got := count(&Explorer{Budget: 2}, delay); got != 10 {
		t.Fatalf("delay got %d", got)
	}
}

func TestReplayDivergence(t *testing.T) {
	defer func() {
		if recover() == nil {
			t.Fatal("expected divergence")
		}
	}()
	Replay([]int{5}, func(r *Run) { r.Choose(2, "x") })
}
