//go:build verif

// Package cli hosts the harness that runs the real identify_license binary
// (built from the current tree) over a finite menu of file sets and flags
// and compares it with in-process Match (C19, second half).
package cli

import (
	"bytes"
	"encoding/json"
	"fmt"
	"os"
	"os/exec"
	"path/filepath"
	"sort"
	"strings"
	"testing"
	"unicode/utf8"

	classifier "github.com/google/licenseclassifier/v2"
	"github.com/google/licenseclassifier/v2/assets"
	"verifh/vrep"
	"verifh/vx"
)

func TestVerif(t *testing.T) {
	vrep.Main(t, "verifh/ext/cli", map[string]vrep.Harness{"c19_cli": c19CLI, "c12_default": c12Default})
}

type fileSpec struct{ rel, body string }

func repoRoot() string {
	if r := os.Getenv("VERIF_REPO"); r != "" {
		return r
	}
	return "/repo"
}

func read(name string) string {
	b, err := os.ReadFile(filepath.Join(repoRoot()+"/v2/assets", name))
	if err != nil {
		panic(err)
	}
	return string(b)
}

func fileSets() map[string][]fileSpec {
	mit := read("License/MIT/pristine.txt")
	apacheHdr := read("Header/Apache-2.0/header.txt")
	bsd := read("License/BSD-3-Clause/pristine.txt")
	long := strings.Repeat("x", 70000)
	// more files than the default number of tasks (1000): tokens and result slots are reused
	var crowd []fileSpec
	for i := 0; i < 1100; i++ {
		body := "plain text number " + fmt.Sprint(i) + "\n"
		if i%40 == 0 {
			body = mit
		} else if i%97 == 0 {
			body = ""
		}
		crowd = append(crowd, fileSpec{fmt.Sprintf("d%02d/f%04d.txt", i%23, i), body})
	}
	return map[string][]fileSpec{
		"crowd":    crowd,
		"licensed": {{"LICENSE", "Some project\n\n" + mit}},
		// sizes around the line reader's buffer (32 / 64 KiB): a 35 KB license without a final line
		// break, and a license that starts behind 70 KB of other lines
		"big-no-trailing-nl": {{"COPYING", "This program comes with a copy of the license.\n\n" + strings.TrimRight(read("License/GPL-3.0/license.txt"), "\n") + "\n\n" + strings.TrimRight(strings.Repeat("appendix line without meaning\n", 40), "\n")}},
		"license-after-64k":  {{"NOTES", strings.Repeat("some unrelated line of notes that fills the file\n", 1330) + mit + "\n" + strings.Repeat("more unrelated lines behind the license text\n", 1600)}},
		"latin1":             {{"LICENSE", "Copyright \xa9 2020 Foo GmbH, M\xfcnchen\n\n" + mit + "\nGr\xfc\xdfe\n"}},
		"unlicensed":         {{"README", "just words, nothing else\nsecond line\n"}},
		// byte-identical files in several places (vendored copies), whose first match is a header
		"duplicates": {{"a/NOTICE", apacheHdr + "\n\n" + mit}, {"b/vendor/x/NOTICE", apacheHdr + "\n\n" + mit}, {"c/NOTICE", apacheHdr + "\n\n" + mit}, {"d/main.go", "// " + strings.ReplaceAll(strings.TrimRight(apacheHdr, "\n"), "\n", "\n// ") + "\npackage main\n"}, {"e/main.go", "// " + strings.ReplaceAll(strings.TrimRight(apacheHdr, "\n"), "\n", "\n// ") + "\npackage main\n"}},
		// symbolic links to files (a vendored copy pointing at the top-level license): a file like any other
		"symlinks": {{"LICENSE", mit}, {"NOTES", "plain\n"}, {"pkg/a/LICENSE", "\x00LINK:../../LICENSE"}, {"pkg/b/COPYING", "\x00LINK:../../LICENSE"}, {"linked-notes", "\x00LINK:NOTES"}},
		// copyright notices and date lines before, inside and - the last line with any words - after the license
		// files with very many matches each: 70 / 130 / 300 notice lines (every line a Copyright match)
		// around a license, and a notice list without any license
		"many-matches": {{"NOTICE", manyNotices(70) + mit}, {"AUTHORS", manyNotices(130) + "\n" + bsd + "\n" + manyNotices(3)}, {"THIRD-PARTY", mit + "\n" + manyNotices(300)}, {"names.txt", manyNotices(65)}},
		// file names that differ by trailing digits, the license starting on lines whose numbers are
		// such digits and ending on ONE common line (what "name+start" reads the same for)
		"name-digits":      {{"d1/LICENSE", stretched(mit, 21, 45)}, {"d1/LICENSE2", stretched(mit, 1, 45)}, {"d2/LICENSE", stretched(mit, 11, 45)}, {"d2/LICENSE1", stretched(mit, 1, 45)}, {"d3/COPYING1", stretched(bsd, 12, 60)}, {"d3/COPYING11", stretched(bsd, 2, 60)}, {"d3/COPYING", stretched(bsd, 112, 160)}},
		"notice-positions": {{"head.txt", "Copyright 2019 First Holder\n" + mit}, {"tail.txt", mit + "\nCopyright 2020 Last Holder\n"}, {"date.txt", mit + "\n\n2020-01-02\n"}, {"tail-blank.txt", mit + "\nCopyright 2021 Somebody\n\n\n"}, {"both.txt", "2001-02-03\n" + bsd + "\nCopyright (c) 2022 Z\n"}},
		// run with -ignore_paths_re '.*/AUTHORS' (a FILE pattern): only that file is left out, not what
		// follows it in its directory
		"ignore-authors":  {{"proj/AUTHORS", "Copyright 2019 A. Uthor\n" + bsd}, {"proj/LICENSE", mit}, {"proj/NOTES.txt", "plain\n"}, {"proj/third_party/lib/COPYING", bsd}, {"proj/zeta/AUTHORS", "nobody\n"}, {"proj/zeta/LICENSE", mit}},
		"nested":          {{"a/b/LICENSE", mit}, {"a/c/NOTES", "plain text\n"}, {"a/b/d/COPYING", bsd}},
		"no-trailing-nl":  {{"LICENSE", strings.TrimRight(mit, "\n")}},
		"crlf":            {{"LICENSE", strings.ReplaceAll("intro line\n"+mit, "\n", "\r\n")}},
		"long-line-first": {{"LICENSE", long + "\n" + mit}},
		"empty+licensed":  {{"EMPTY", ""}, {"LICENSE", bsd}},
		"header-only":     {{"main.go", "// " + strings.ReplaceAll(strings.TrimRight(apacheHdr, "\n"), "\n", "\n// ") + "\npackage main\n"}},
		"copyright-only":  {{"NOTICE", "Copyright 2020 Somebody\n"}},
		"two-in-one":      {{"LICENSES", mit + "\n\n----\n\n" + bsd}},
		"identical-twins": {{"COPYING", "preamble\n" + read("License/WTFPL/license.txt")}},
		"many":            {{"1/LICENSE", mit}, {"2/LICENSE", bsd}, {"3/LICENSE", mit}, {"4/README", "nothing\n"}, {"5/LICENSE", bsd}},
	}
}

func expectedLines(cl *classifier.Classifier, path string, body []byte, headers bool) ([]string, classifier.Matches) {
	var out []string
	var kept classifier.Matches
	for _, m := range cl.Match(body).Matches {
		if !headers && m.MatchType == "Header" {
			continue
		}
		name := m.Name
		if m.MatchType != "License" && m.MatchType != "Header" {
			name = fmt.Sprintf("%s:%s", m.MatchType, m.Name)
		}
		out = append(out, fmt.Sprintf("%s %s (variant: %v, confidence: %v, start: %v, end: %v)", path, name, m.Variant, m.Confidence, m.StartLine, m.EndLine))
		kept = append(kept, m)
	}
	return out, kept
}

// linesOf returns lines a..b (1-based, inclusive) of body, each with a trailing newline.
func linesOf(body string, a, b int) string {
	ls := strings.Split(body, "\n")
	if strings.HasSuffix(body, "\n") {
		ls = ls[:len(ls)-1]
	}
	var sb strings.Builder
	for i := a; i <= b && i-1 < len(ls); i++ {
		sb.WriteString(ls[i-1] + "\n")
	}
	return sb.String()
}

func c19CLI(c *vrep.Ctx) {
	tmp, err := os.MkdirTemp("", "verif-cli-")
	if err != nil {
		panic(err)
	}
	defer os.RemoveAll(tmp)
	bin := filepath.Join(tmp, "identify_license")
	build := exec.Command("go", "build", "-o", bin, "github.com/google/licenseclassifier/v2/tools/identify_license")
	build.Dir = "/verif/h"
	flags := "-mod=mod"
	if mf := os.Getenv("VERIF_MODFILE"); mf != "" {
		flags += " -modfile=" + mf
	}
	build.Env = append(os.Environ(), "GOFLAGS="+flags, "GOPROXY=off", "GOSUMDB=off", "GOTOOLCHAIN=local")
	if b, err := build.CombinedOutput(); err != nil {
		panic(fmt.Sprintf("building identify_license from the current tree failed: %v\n%s", err, b))
	}
	cl, err := assets.DefaultClassifier()
	if err != nil {
		panic(err)
	}
	sets := fileSets()
	var names []string
	for n := range sets {
		names = append(names, n)
	}
	sort.Strings(names)
	if !c.Thorough() {
		names = []string{"licensed", "unlicensed", "nested", "crlf", "long-line-first", "header-only", "copyright-only", "no-trailing-nl", "identical-twins", "crowd", "latin1", "big-no-trailing-nl", "license-after-64k", "ignore-authors", "notice-positions", "symlinks", "duplicates", "many-matches", "name-digits"}
	}
	taskMenu := []string{"1", "2", "16", "default"}
	c.R.Rule = fmt.Sprintf("the real identify_license binary built from the current tree, over %d file sets (licensed, unlicensed, nested directories, no trailing newline, CRLF, a 70 000-character line, empty file, header-only, copyright-only, two licenses in one file, many files, 1100 files, a tree run with -ignore_paths_re for one file name) x {-headers} x {plain, -json -include_text} x -tasks %v: stdout lines (as a multiset), JSON Text (= lines StartLine..EndLine of the file) and exit status compared with in-process DefaultClassifier().Match on the file bytes; quick tier samples the flag combinations round-robin, thorough runs all; non-trivial = runs that reported at least one line", len(names), taskMenu)
	type combo struct {
		headers, json bool
		tasks         string
	}
	var combos []combo
	for _, h := range []bool{false, true} {
		for _, j := range []bool{false, true} {
			for _, t := range taskMenu {
				combos = append(combos, combo{h, j, t})
			}
		}
	}
	body := func(r *vx.Run) {
		si := r.Choose(len(names), "fileset")
		var cb combo
		if c.Thorough() {
			cb = combos[r.Choose(len(combos), "flags")]
		} else {
			// two flag combinations per file set, rotating through the menu
			k := r.Choose(2, "flags")
			cb = combos[(si*5+k*7)%len(combos)]
			cb.json = k == 1 // every file set once plain, once with -json -include_text
		}
		set := sets[names[si]]
		root := filepath.Join(tmp, fmt.Sprintf("run-%s-%v-%v-%s", names[si], cb.headers, cb.json, cb.tasks))
		os.MkdirAll(root, 0o755)
		defer os.RemoveAll(root)
		var want []string
		wantText := map[string][]string{} // path -> expected Text per classification (in Match order)
		bodies := map[string]string{}
		ignoreRe := ""
		if strings.HasPrefix(names[si], "ignore-authors") {
			ignoreRe = ".*/AUTHORS"
		}
		for _, f := range set {
			p := filepath.Join(root, "tree", f.rel)
			os.MkdirAll(filepath.Dir(p), 0o755)
			if strings.HasPrefix(f.body, "\x00LINK:") {
				// a symbolic link; what is expected for it is what the library says about the bytes it leads to
				target := strings.TrimPrefix(f.body, "\x00LINK:")
				if err := os.Symlink(target, p); err != nil {
					panic(err)
				}
				for _, g := range set {
					if filepath.Join(root, "tree", g.rel) == filepath.Join(filepath.Dir(p), target) {
						f.body = g.body
					}
				}
			} else {
				os.WriteFile(p, []byte(f.body), 0o644)
			}
			if ignoreRe != "" && strings.HasSuffix(p, "/AUTHORS") {
				continue // left out by the pattern: nothing is expected for it
			}
			lines, ms := expectedLines(cl, p, []byte(f.body), cb.headers)
			want = append(want, lines...)
			bodies[p] = f.body
			for _, m := range ms {
				wantText[p] = append(wantText[p], fmt.Sprintf("%s|%v|%d|%d|%s", m.Name, m.Confidence, m.StartLine, m.EndLine, linesOf(f.body, m.StartLine, m.EndLine)))
			}
		}
		sort.Strings(want)
		args := []string{"-tasks", cb.tasks}
		if cb.tasks == "default" {
			args = nil // the tool's own default (1000)
		}
		if cb.headers {
			args = append(args, "-headers")
		}
		jsonPath := filepath.Join(root, "out.json")
		if cb.json {
			args = append(args, "-json", jsonPath, "-include_text")
		}
		if ignoreRe != "" {
			args = append(args, "-ignore_paths_re", ignoreRe)
		}
		args = append(args, filepath.Join(root, "tree"))
		cmd := exec.Command(bin, args...)
		var stdout, stderr bytes.Buffer
		cmd.Stdout, cmd.Stderr = &stdout, &stderr
		runErr := cmd.Run()
		exit := 0
		if runErr != nil {
			exit = 1
			if ee, ok := runErr.(*exec.ExitError); ok {
				exit = ee.ExitCode()
			}
		}
		var got []string
		for _, l := range strings.Split(stdout.String(), "\n") {
			if l != "" {
				got = append(got, l)
			}
		}
		sort.Strings(got)
		msg := ""
		crlfOnly, realDiff := false, false
		invalidOnly := false
		switch {
		case strings.Join(got, "\n") != strings.Join(want, "\n"):
			msg = fmt.Sprintf("stdout %q, library says %q (stderr tail: %s)", got, want, tailOf(stderr.String()))
		case (exit == 0) != (len(want) > 0):
			msg = fmt.Sprintf("exit status %d with %d reported lines (stderr tail: %s)", exit, len(want), tailOf(stderr.String()))
		case cb.json && len(want) > 0:
			b, err := os.ReadFile(jsonPath)
			if err != nil {
				msg = "no JSON output: " + err.Error()
				break
			}
			var jr []struct {
				Filepath        string
				Classifications []struct {
					Name       string
					Confidence float64
					StartLine  int
					EndLine    int
					Text       string
				}
			}
			if err := json.Unmarshal(b, &jr); err != nil {
				msg = "bad JSON: " + err.Error()
				break
			}
			gotText := map[string][]string{}
			seenPath := map[string]bool{}
			for _, f := range jr {
				if seenPath[f.Filepath] {
					msg = fmt.Sprintf("JSON report lists %s more than once (its matches are split over several entries)", filepath.Base(f.Filepath))
				}
				seenPath[f.Filepath] = true
			}
			for _, f := range jr {
				for _, k := range f.Classifications {
					gotText[f.Filepath] = append(gotText[f.Filepath], fmt.Sprintf("%s|%v|%d|%d|%s", k.Name, k.Confidence, k.StartLine, k.EndLine, k.Text))
				}
			}
			for p, w := range wantText {
				g := gotText[p]
				sort.Strings(w)
				sort.Strings(g)
				if strings.Join(w, "\x00") != strings.Join(g, "\x00") {
					// known deviation class: the ONLY difference is the carriage return dropped from CRLF line ends
					if strings.ReplaceAll(strings.Join(w, "\x00"), "\r\n", "\n") == strings.Join(g, "\x00") && !realDiff {
						crlfOnly = true
					} else if strings.ToValidUTF8(strings.Join(w, "\x00"), "\ufffd") != strings.Join(w, "\x00") && utf8Replaced(strings.Join(w, "\x00")) == strings.Join(g, "\x00") && !realDiff {
						// known deviation class: the file is not valid UTF-8 and the ONLY difference is that every
						// invalid byte arrives as U+FFFD (a JSON string cannot carry it)
						invalidOnly = true
					} else {
						crlfOnly, invalidOnly, realDiff = false, false, true
					}
					msg = fmt.Sprintf("JSON classifications of %s: %.300q, expected (Text = lines StartLine..EndLine of the file) %.300q", filepath.Base(p), g, w)
				}
			}
		}
		r.Note = map[string]interface{}{"id": fmt.Sprintf("%s headers=%v json=%v tasks=%s", names[si], cb.headers, cb.json, cb.tasks), "msg": msg, "n": len(want), "set": names[si], "json": cb.json, "crlfOnly": crlfOnly, "invalidOnly": invalidOnly}
	}
	c.Run(c.Explorer(0), body, func(r *vx.Run) {
		id := r.Note["id"].(string)
		if r.Note["n"].(int) > 0 {
			c.Nontrivial(id)
		}
		c.Sample(id)
		if m := r.Note["msg"].(string); m != "" {
			key := "c19_cli:" + strings.ReplaceAll(id, " ", "_")
			if r.Note["crlfOnly"].(bool) {
				key = "c19_cli:class:crlf-text"
			}
			if r.Note["invalidOnly"].(bool) {
				key = "c19_cli:class:invalid-utf8-text"
			}
			c.Violate(key, id+": "+m, r, m)
		} else {
			c.Outcome("agrees")
		}
	})
}

func tailOf(s string) string {
	l := strings.Split(strings.TrimSpace(s), "\n")
	if len(l) > 2 {
		l = l[len(l)-2:]
	}
	return strings.Join(l, " / ")
}

// c12Default: DefaultClassifier is equivalent to LoadLicenses on the assets
// directory (exported API only: identical Results on every planted corpus document).
func c12Default(c *vrep.Ctx) {
	def, err := assets.DefaultClassifier()
	if err != nil {
		panic(err)
	}
	ld := classifier.NewClassifier(0.8)
	if err := ld.LoadLicenses(repoRoot() + "/v2/assets"); err != nil {
		panic(err)
	}
	// histories: whatever a caller did to one DefaultClassifier() - extended its corpus, matched,
	// normalized, installed a trace configuration - the NEXT DefaultClassifier() is again equivalent
	// to LoadLicenses(assets) (variant = which classifier the comparison below uses)
	zorblatt := []byte("zorblatt frobnicate quuxly the software may be snarfed by any wombat provided that the gribble notice stays intact")
	first := def
	first.AddContent("License", "Zorblatt-1.0", "license.txt", zorblatt)
	first.Match(zorblatt)
	first.Normalize([]byte("Unseen Words Gribblefrotz"))
	first.SetTraceConfiguration(&classifier.TraceConfiguration{TraceLicenses: "*", TracePhases: "*", Tracer: func(string, ...interface{}) {}})
	def, err = assets.DefaultClassifier()
	if err != nil {
		panic(err)
	}
	if got := render0(def.Match(zorblatt)); strings.Contains(got, "Zorblatt") {
		c.Violate("c12_default:history:AddContent", "a document added to one DefaultClassifier() is known to the next DefaultClassifier(): "+got, nil, got)
	}
	c.R.Rule = "a first DefaultClassifier() is extended (AddContent), used (Match, Normalize) and given a trace configuration; the NEXT DefaultClassifier() must not know the added document and is compared below; DefaultClassifier() vs NewClassifier(0.8)+LoadLicenses(/repo/v2/assets): every corpus file planted between unrelated lines, every scenario file and a few unrelated texts must give identical Results (names, variants, confidences, spans, order); non-trivial = inputs with a match"
	var files []string
	filepath.Walk(repoRoot()+"/v2/assets", func(p string, info os.FileInfo, err error) error {
		if err == nil && !info.IsDir() && strings.HasSuffix(p, ".txt") {
			files = append(files, p)
		}
		return nil
	})
	sc, _ := filepath.Glob(repoRoot() + "/v2/scenarios/*")
	files = append(files, sc...)
	sort.Strings(files)
	render := func(r classifier.Results) string {
		var sb strings.Builder
		fmt.Fprintf(&sb, "%d", r.TotalInputLines)
		for _, m := range r.Matches {
			fmt.Fprintf(&sb, "|%s/%s/%s %v %d-%d %d-%d", m.MatchType, m.Name, m.Variant, m.Confidence, m.StartLine, m.EndLine, m.StartTokenIndex, m.EndTokenIndex)
		}
		return sb.String()
	}
	body := func(r *vx.Run) {
		fi := r.Choose(len(files), "file")
		b, _ := os.ReadFile(files[fi])
		in := []byte("zqaxav zqbxav\n" + string(b) + "\nzqcxav\n")
		a, d := render(def.Match(in)), render(ld.Match(in))
		msg := ""
		if a != d {
			msg = fmt.Sprintf("DefaultClassifier %s, LoadLicenses %s", a, d)
		}
		r.Note = map[string]interface{}{"f": files[fi], "msg": msg, "m": strings.Contains(a, "|")}
	}
	c.Run(c.Explorer(0), body, func(r *vx.Run) {
		if r.Note["m"].(bool) {
			c.Nontrivial(r.Note["f"].(string))
			c.Sample(r.Note["f"])
		}
		if m := r.Note["msg"].(string); m != "" {
			c.Violate("c12_default:"+r.Note["f"].(string), r.Note["f"].(string)+": "+m, r, m)
		}
	})
}

func render0(r classifier.Results) string {
	var sb strings.Builder
	for _, m := range r.Matches {
		fmt.Fprintf(&sb, "|%s/%s/%s %v", m.MatchType, m.Name, m.Variant, m.Confidence)
	}
	return sb.String()
}

// utf8Replaced replaces every byte that is not part of a valid UTF-8 sequence by U+FFFD, one
// replacement per byte (what encoding/json does when it marshals a string).
func utf8Replaced(s string) string {
	var sb strings.Builder
	for i := 0; i < len(s); {
		r, size := utf8.DecodeRuneInString(s[i:])
		if r == utf8.RuneError && size == 1 {
			sb.WriteString("\ufffd")
		} else {
			sb.WriteString(s[i : i+size])
		}
		i += size
	}
	return sb.String()
}

// manyNotices returns n lines, each a copyright notice of its own holder.
func manyNotices(n int) string {
	var sb strings.Builder
	for i := 0; i < n; i++ {
		fmt.Fprintf(&sb, "Copyright %d Holder Number %d\n", 1990+i%30, i)
	}
	return sb.String()
}

// stretched returns text behind start-1 filler lines, with blank lines inserted behind its first
// line so that its last line is line end of the result.
func stretched(text string, start, end int) string {
	lines := strings.Split(strings.TrimRight(text, "\n"), "\n")
	extra := end - (start - 1) - len(lines)
	if extra < 0 {
		panic("stretched: text too long")
	}
	var sb strings.Builder
	for i := 1; i < start; i++ {
		fmt.Fprintf(&sb, "filler line %d\n", i)
	}
	sb.WriteString(lines[0] + "\n" + strings.Repeat("\n", extra))
	for _, l := range lines[1:] {
		sb.WriteString(l + "\n")
	}
	return sb.String()
}
