//go:build verif

// Package v1 hosts the external harnesses for the v1 License classifier and
// its archive (C15, C16, the License half of C14). The root package cannot
// host in-package harnesses: its TestMain needs licenses.db.
package v1

import (
	"bytes"
	"fmt"
	"io"
	"log"
	"os"
	"reflect"
	"sort"
	"strings"
	"sync"
	"testing"
	"time"
	"unsafe"

	lc "github.com/google/licenseclassifier"
	"github.com/google/licenseclassifier/licenses"
	"github.com/google/licenseclassifier/serializer"
	sc "github.com/google/licenseclassifier/stringclassifier"
	"verifh/vrep"
	"verifh/vsync"
	"verifh/vx"
)

var registry = map[string]vrep.Harness{}

func TestVerif(t *testing.T) {
	log.SetOutput(io.Discard)
	vrep.Main(t, "verifh/ext/v1", registry)
}

func init() {
	registry["c15_archive"] = c15Archive
	registry["c15_history"] = c15History
	registry["c16_corpus"] = c16Corpus
	registry["c16_threshold"] = c16Threshold
	registry["c14_license_sched"] = c14LicenseSched
	registry["c14_license_race"] = c14LicenseRace
}

// inner returns the string classifier inside a License (white-box via reflection).
func inner(l *lc.License) *sc.Classifier {
	f := reflect.ValueOf(l).Elem().FieldByName("c")
	return (*sc.Classifier)(unsafe.Pointer(f.Pointer()))
}

// keysOf lists the known-value keys of a string classifier (white-box).
func keysOf(c *sc.Classifier) []string {
	v := reflect.ValueOf(c).Elem().FieldByName("values")
	var out []string
	for _, k := range v.MapKeys() {
		out = append(out, k.String())
	}
	sort.Strings(out)
	return out
}

func normalize(s string) string {
	for _, n := range lc.Normalizers {
		s = n(s)
	}
	return s
}

func instrumented() bool {
	_, _, steps := vsync.RunDefault(func() {
		c := sc.New(0.8)
		c.AddValue("k", "a b c")
		c.MultipleMatch("x a b c y")
	})
	return steps > 2
}

// licenseFiles lists the shipped license files.
func licenseFiles() []string {
	ents, err := licenses.ReadLicenseDir()
	if err != nil {
		panic(err)
	}
	var out []string
	for _, e := range ents {
		if strings.HasSuffix(e.Name(), ".txt") {
			out = append(out, e.Name())
		}
	}
	sort.Strings(out)
	return out
}

// synthetic files served through the ReadLicenseFile package variable
var synthetic = map[string]string{
	"syn-empty.txt":   "",
	"syn-one.txt":     "license",
	"syn-punct.txt":   "... --- !!!",
	"syn-three.txt":   "software license terms",
	"syn-trailer.txt": "This software license has terms and conditions.\nEND OF TERMS AND CONDITIONS\njunk that must be trimmed",
	"syn-dup.txt":     "software license terms",
}

// synText: a deterministic text of n words (vocabulary of 700 made-up words, fixed linear
// congruential order) that mentions the common license words: a license bigger than any shipped one
// (GPL-3.0 has about 5 600 words; its .hash entry is the largest entry of the real archive).
func synText(n int) string {
	var sb strings.Builder
	sb.WriteString("this software license has terms for the work")
	x := uint32(12345)
	for i := 0; i < n; i++ {
		x = x*1664525 + 1013904223
		k := (x >> 8) % 700
		sb.WriteByte(' ')
		sb.WriteString("w" + string(rune('a'+k%26)) + string(rune('a'+(k/26)%26)) + "o" + string(rune('a'+k/676)))
		if i%12 == 11 {
			sb.WriteByte('\n')
		}
	}
	return sb.String()
}

func init() {
	synthetic["syn-large.txt"] = synText(9000)
	// byte-level oddities at the edges and inside a text (files padded to a block size, control
	// characters, non-ASCII blanks, CRLF): names sort behind the others (tuples take the first three)
	body := "Redistribution and use of this software in source and binary forms are permitted provided that the following conditions of the license are met and the copyright notice is retained"
	synthetic["syn-z-nul-tail.txt"] = body + "\n" + strings.Repeat("\x00", 37)
	synthetic["syn-z-nul-head.txt"] = strings.Repeat("\x00", 5) + body
	synthetic["syn-z-ctrl.txt"] = "\ufeff" + strings.Replace(body, " and ", " \x01and\x7f \f\v", 2) + "\x1a"
	synthetic["syn-z-blank-tail.txt"] = body + "\u00a0\u2028\u3000 \t"
	// one phrase 300 times (counts of one and the same hash beyond a byte), between distinct words
	{
		var sb strings.Builder
		sb.WriteString("this agreement lists every item it covers one by one namely")
		for i := 0; i < 300; i++ {
			fmt.Fprintf(&sb, " item covered hereunder w%c%c", 'a'+i%26, 'a'+(i/26)%26)
		}
		// three more phrases, 256 / 257 / 512 times (one of the four cannot be the last in any order)
		for k, n := range []int{256, 257, 512} {
			ph := []string{"subject to these terms", "without any express warranty", "as permitted by law"}[k]
			for i := 0; i < n; i++ {
				fmt.Fprintf(&sb, " %s x%d%c%c", ph, k, 'a'+i%26, 'a'+(i/26)%26)
			}
		}
		sb.WriteString(" and nothing else is covered by this agreement at all")
		synthetic["syn-z-refrain.txt"] = sb.String()
	}
	// file NAMES at and around what a classic tar header holds (100 bytes; the .hash entry of a
	// license is one byte longer than its text entry), far beyond it, and outside ASCII
	for _, n := range []int{99, 100, 101, 155, 156, 260} {
		synthetic["syn-n"+fmt.Sprint(n)+"-"+strings.Repeat("x", n-4-len("syn-n"+fmt.Sprint(n)+"-"))+".txt"] = body + fmt.Sprintf(" name%d", n)
	}
	synthetic["syn-Licen\u00e7a-P\u00fablica-1.0.txt"] = body + " publica"
	synthetic["syn-with space.txt"] = body + " spaced"
	synthetic["syn-z-crlf.txt"] = strings.ReplaceAll(strings.ReplaceAll(body, " that ", "\r\nthat "), " are ", "\r\nare ") + "\r\n"
	// many small licenses (more than any batch or table size one would pick for 178 files)
	for i := 0; i < 520; i++ {
		w := fmt.Sprintf("m%c%c%c", 'a'+i%26, 'a'+(i/26)%26, 'a'+i/676)
		synthetic[manyName(i)] = fmt.Sprintf("this software license number %s grants %sx rights under the terms %sy and the work %sz is covered", w, w, w, w)
	}
}

func manyName(i int) string { return fmt.Sprintf("many-%04d.txt", i) }

// padName: a synthetic license of about n bytes (mode=offsets: it goes in front of a 900-byte
// license, whose position in the archive stream then sweeps over every 512-byte alignment with
// the 32 KiB and 64 KiB marks of the stream).
func padName(n int) string { return fmt.Sprintf("pad-%06d.txt", n) }

func init() {
	base := synText(14000)
	for n := 4096; n <= 9984; n += 32 {
		synthetic[padName(n)] = base[:n]
	}
	synthetic["after-pad.txt"] = "Permission to use copy modify and distribute this software and its documentation for any purpose and without fee is hereby granted provided that the above copyright notice appear in all copies and that both that copyright notice and this permission notice appear in supporting documentation and that the name of the author not be used in advertising or publicity pertaining to distribution of the software without specific written prior permission the author makes no representations about the suitability of this software for any purpose it is provided as is without express or implied warranty the author disclaims all warranties with regard to this software including all implied warranties of merchantability and fitness in no event shall the author be liable for any special indirect or consequential damages"
}

var (
	readOnce sync.Once
	origRead func(string) ([]byte, error)
)

func installReader() {
	readOnce.Do(func() {
		origRead = lc.ReadLicenseFile
		lc.ReadLicenseFile = func(name string) ([]byte, error) {
			if s, ok := synthetic[name]; ok {
				return []byte(s), nil
			}
			return origRead(name)
		}
	})
}

func fmtMatches(ms sc.Matches) string {
	var out []string
	for _, m := range ms {
		out = append(out, fmt.Sprintf("%s conf=%v off=%d ext=%d", m.Name, m.Confidence, m.Offset, m.Extent))
	}
	return strings.Join(out, "; ")
}

func readFile(name string) string {
	b, err := lc.ReadLicenseFile(name)
	if err != nil {
		panic(err)
	}
	return string(b)
}

// ---------------------------------------------------------------- C15

func c15Archive(c *vrep.Ctx) {
	if !instrumented() {
		panic("c15 needs the v1 instrumentation profile")
	}
	installReader()
	all := licenseFiles()
	mode := c.Param("mode", "singles")
	pool := []string{"MIT.txt", "Apache-2.0.txt", "Apache-2.0.header.txt", "BSD-3-Clause.txt", "ISC.txt", "GPL-2.0.header.txt", "Unlicense.txt", "WTFPL.txt"}
	var syn []string
	for n := range synthetic {
		if !strings.HasPrefix(n, "many-") && !strings.HasPrefix(n, "pad-") && n != "after-pad.txt" {
			syn = append(syn, n)
		}
	}
	sort.Strings(syn)
	var sets [][]string
	switch mode {
	case "singles":
		files := all
		if !c.Thorough() {
			var pick []string
			for i := 0; i < 30; i++ {
				pick = append(pick, all[i*len(all)/30])
			}
			files = pick
		}
		for _, f := range append(files, syn...) {
			sets = append(sets, []string{f})
		}
	case "many":
		// archives of MANY licenses: every size of the menu; the query menu below takes the members
		// around the usual power-of-two positions
		for _, n := range []int{255, 256, 257, 300, 513}[:c.Pick(4, 5)] {
			var set []string
			for i := 0; i < n; i++ {
				set = append(set, manyName(i))
			}
			sets = append(sets, set)
		}
	case "offsets":
		// an 800-byte license behind a license of every size 4 096..9 984 bytes in steps of 32 (the
		// second text entry then starts at EVERY 512-byte block of a 32 KiB stretch of the archive
		// stream: measured by TestDebugOffsets: 63 of 64 residues)
		for n := 4096; n <= 9984; n += 32 {
			sets = append(sets, []string{padName(n), "after-pad.txt"})
		}
	case "counts":
		// EVERY number of licenses 1..N in one archive (batch sizes, worker shares)
		for n := 1; n <= c.Pick(48, 130); n++ {
			var set []string
			for i := 0; i < n; i++ {
				set = append(set, manyName(i))
			}
			sets = append(sets, set)
		}
	case "tuples":
		base := append(append([]string(nil), pool...), syn[:3]...)
		for _, a := range base {
			for _, b := range base {
				if a != b {
					sets = append(sets, []string{a, b})
				}
			}
		}
		if c.Thorough() {
			for _, a := range pool[:6] {
				for _, b := range pool[:6] {
					for _, d := range pool[:6] {
						if a != b && b != d && a != d {
							sets = append(sets, []string{a, b, d})
						}
					}
				}
			}
		}
	}
	c.R.Rule = fmt.Sprintf("archive round trip, mode %s: %d file sets (every shipped license alone / all ordered pairs (and triples) of an 8-file pool incl. .header files / synthetic files served through ReadLicenseFile: empty, one word, punctuation only, END OF TERMS trailer, duplicate text, a 9 000-word text larger than any shipped license, texts with NUL padding at either end, control characters, non-ASCII blanks at the end, CRLF, four phrases repeated 256..512 times); ArchiveLicenses -> New(ArchiveBytes): loads without error, contains exactly the file names minus .txt, and the archive-loaded string classifier answers NearestMatch and MultipleMatch on a query menu (each member, edited member, concatenation, unrelated text) exactly like a classifier built with AddValue from the same normalised texts; non-trivial = distinct (file set, query) comparisons", mode, len(sets))
	c.Bound("file_sets", len(sets))
	body := func(r *vx.Run) {
		si := r.Choose(len(sets), "set")
		set := sets[si]
		var buf bytes.Buffer
		msg := ""
		nq := 0
		var outcomes []string
		func() {
			defer func() {
				if x := recover(); x != nil {
					msg = fmt.Sprint("panic: ", x)
				}
			}()
			if err := serializer.ArchiveLicenses(set, &buf); err != nil {
				msg = "ArchiveLicenses: " + err.Error()
				return
			}
			l, err := lc.New(lc.DefaultConfidenceThreshold, lc.ArchiveBytes(buf.Bytes()))
			if err != nil {
				msg = "archive does not load: " + err.Error()
				return
			}
			in := inner(l)
			var want []string
			ref := sc.New(lc.DefaultConfidenceThreshold)
			texts := map[string]string{}
			for _, f := range set {
				name := strings.TrimSuffix(f, ".txt")
				want = append(want, name)
				norm := normalize(lc.TrimExtraneousTrailingText(readFile(f)))
				texts[name] = norm
				if err := ref.AddValue(name, norm); err != nil {
					msg = "reference AddValue: " + err.Error()
					return
				}
			}
			sort.Strings(want)
			if got := keysOf(in); strings.Join(got, ",") != strings.Join(want, ",") {
				msg = fmt.Sprintf("archive-loaded classifier holds %v, archive was built from %v", got, want)
				return
			}
			// query menu
			var queries []string
			qset := set
			if len(set) > 20 {
				// members around positions 0, 127/128, 255/256/257 and the last one
				qset = nil
				for _, i := range []int{0, 1, 127, 128, 254, 255, 256, 257, len(set) - 1} {
					if i < len(set) {
						qset = append(qset, set[i])
					}
				}
			}
			for _, f := range qset {
				t := readFile(f)
				queries = append(queries, t, strings.Replace(t, " the ", " zq ", 3), "preamble text about software\n"+t+"\ntrailing words")
				// a copy with three words changed wherever they are (texts without "the" too): not an exact occurrence
				if w := strings.Fields(t); len(w) >= 8 {
					for _, at := range []int{len(w) / 4, len(w) / 2, 3 * len(w) / 4} {
						w[at] = "zqchanged"
					}
					queries = append(queries, "intro "+strings.Join(w, " "))
				}
			}
			if len(set) > 1 {
				queries = append(queries, readFile(set[0])+"\n\n"+readFile(set[1]))
			}
			queries = append(queries, "this software text has nothing to do with any license terms", "")
			for qi, q := range queries {
				nq++
				n1 := normalize(q)
				n2 := normalize(n1)
				var a, b sc.Matches
				var na, nb *sc.Match
				p, d, _ := vsync.RunDefault(func() {
					a = in.MultipleMatch(n1)
					na = in.NearestMatch(q)
				})
				p2, d2, _ := vsync.RunDefault(func() {
					b = ref.MultipleMatch(n2)
					nb = ref.NearestMatch(n1)
				})
				if p != "" || d != "" || p2 != "" || d2 != "" {
					msg = fmt.Sprintf("query %d: panic/deadlock archive=%q%q reference=%q%q", qi, p, d, p2, d2)
					return
				}
				outcomes = append(outcomes, fmtMatches(a)+" / "+na.Name)
				if fmtMatches(a) != fmtMatches(b) {
					msg = fmt.Sprintf("query %d: MultipleMatch differs: archive-loaded [%s], directly built [%s]", qi, fmtMatches(a), fmtMatches(b))
					return
				}
				if na.Confidence != nb.Confidence || (na.Name != nb.Name && !tie(texts, n1, na, nb)) {
					msg = fmt.Sprintf("query %d: NearestMatch differs: archive-loaded %+v, directly built %+v", qi, *na, *nb)
					return
				}
			}
		}()
		setName := strings.Join(set, "+")
		if len(set) > 20 {
			setName = fmt.Sprintf("%s..%s (%d files)", set[0], set[len(set)-1], len(set))
		}
		r.Note = map[string]interface{}{"set": setName, "msg": msg, "nq": nq, "outcomes": outcomes}
	}
	c.Run(c.Explorer(0), body, func(r *vx.Run) {
		set := r.Note["set"].(string)
		for i := 0; i < r.Note["nq"].(int); i++ {
			c.Nontrivial(fmt.Sprintf("%s|q%d", set, i))
		}
		nonEmpty := 0
		for _, o := range r.Note["outcomes"].([]string) {
			c.Outcome(o)
			if !strings.HasPrefix(o, " / ") {
				nonEmpty++
			}
		}
		c.Sample(map[string]interface{}{"files": set, "queries": r.Note["nq"], "queries_with_a_MultipleMatch_result": nonEmpty})
		if m := r.Note["msg"].(string); m != "" {
			c.Violate("c15:"+set+":"+strings.SplitN(m, ":", 2)[0], set+": "+m, r, m)
		} else {
			c.Outcome("equal")
		}
	})
}

// c15History: archives are built and loaded one after another in ONE process, with file names
// recurring under different contents: every load must behave as if it were the first (no state
// carried from an earlier archive). Explicit enumeration of all load histories up to a depth.
func c15History(c *vrep.Ctx) {
	if !instrumented() {
		panic("c15 needs the v1 instrumentation profile")
	}
	installReader()
	depth := c.Pick(2, 3)
	words := func(seed, n int) string {
		vocab := []string{"software", "license", "terms", "permission", "granted", "copy", "modify", "distribute", "notice", "warranty", "liability", "holder", "conditions", "source", "binary", "redistribution"}
		var w []string
		for i := 0; i < n; i++ {
			w = append(w, vocab[(i*seed+i/3+seed)%len(vocab)])
		}
		return strings.Join(w, " ")
	}
	texts := map[string][2]string{
		"syn-a.txt": {words(3, 60), words(5, 64)},
		"syn-b.txt": {words(7, 50), words(11, 58)},
	}
	type op struct {
		files []string
		ver   []int
		limit int // >= 0: the archive goes to a writer that fails after this many bytes; the outcome is ignored
	}
	var ops []op
	// failed builds: real license files (large enough for the compressed stream to reach the writer
	// while entries are still being produced) into a writer that gives up early
	for _, lim := range []int{0, 512, 2048, 8192, 20000} {
		ops = append(ops, op{[]string{"GPL-2.0.txt", "MIT.txt"}, nil, lim})
	}
	for va := 0; va < 2; va++ {
		ops = append(ops, op{[]string{"syn-a.txt"}, []int{va}, -1})
		ops = append(ops, op{[]string{"syn-b.txt"}, []int{va}, -1})
		for vb := 0; vb < 2; vb++ {
			ops = append(ops, op{[]string{"syn-a.txt", "syn-b.txt"}, []int{va, vb}, -1})
		}
	}
	c.R.Rule = fmt.Sprintf("load histories: ALL sequences of 1..%d archive builds+loads in one process over 2 synthetic file names x 2 content versions each, and builds of two real licenses into a writer that fails after 0/512/2048/8192/20000 bytes (%d operations: {a}, {b}, {a,b} x versions, 5 failed builds); after EVERY load the archive-loaded classifier must answer exact, lightly edited and embedded queries for the CURRENT contents like a classifier built directly from them, and every classifier loaded EARLIER in the history is asked its queries again after each later load; non-trivial = distinct (history, query) comparisons", depth, len(ops))
	c.Bound("depth", depth)
	c.Bound("operations", len(ops))
	body := func(r *vx.Run) {
		n := 1 + r.Choose(depth, "len")
		var hist []int
		for i := 0; i < n; i++ {
			hist = append(hist, r.Choose(len(ops), "op"))
		}
		if r.Scout() {
			return
		}
		msg := ""
		nq := 0
		var desc []string
		// classifiers loaded earlier in the history stay in use: each is asked again after every later
		// load and must still answer like the classifier built directly from ITS contents
		type heldClassifier struct {
			in, ref *sc.Classifier
			queries []string
			step    int
		}
		var held []heldClassifier
		for step, oi := range hist {
			o := ops[oi]
			if o.limit >= 0 {
				desc = append(desc, fmt.Sprintf("%v->writer failing after %d bytes", o.files, o.limit))
				func() {
					defer func() {
						if x := recover(); x != nil {
							msg = fmt.Sprint("panic in a build whose writer fails: ", x)
						}
					}()
					serializer.ArchiveLicenses(o.files, &limitWriter{left: o.limit})
				}()
				if msg != "" {
					break
				}
				continue
			}
			cur := map[string]string{}
			for i, f := range o.files {
				synthetic[f] = texts[f][o.ver[i]]
				cur[strings.TrimSuffix(f, ".txt")] = texts[f][o.ver[i]]
			}
			desc = append(desc, fmt.Sprintf("%v@%v", o.files, o.ver))
			func() {
				defer func() {
					if x := recover(); x != nil {
						msg = fmt.Sprint("panic: ", x)
					}
				}()
				var buf bytes.Buffer
				if err := serializer.ArchiveLicenses(o.files, &buf); err != nil {
					msg = err.Error()
					return
				}
				l, err := lc.New(lc.DefaultConfidenceThreshold, lc.ArchiveBytes(buf.Bytes()))
				if err != nil {
					msg = "archive does not load: " + err.Error()
					return
				}
				in := inner(l)
				ref := sc.New(lc.DefaultConfidenceThreshold)
				for name, t := range cur {
					ref.AddValue(name, normalize(t))
				}
				for _, h := range held {
					for _, n1 := range h.queries {
						nq++
						var a, b sc.Matches
						vsync.RunDefault(func() { a = h.in.MultipleMatch(n1) })
						vsync.RunDefault(func() { b = h.ref.MultipleMatch(normalize(n1)) })
						if fmtMatches(a) != fmtMatches(b) && msg == "" {
							msg = fmt.Sprintf("the classifier loaded in step %d, asked again after load %d: MultipleMatch differs: archive-loaded [%s], directly built [%s]", h.step+1, step+1, fmtMatches(a), fmtMatches(b))
						}
					}
				}
				hc := heldClassifier{in: in, ref: ref, step: step}
				defer func() { held = append(held, hc) }()
				for _, t := range cur {
					w := strings.Fields(t)
					edited := append([]string(nil), w...)
					for i := range edited {
						if i%11 == 5 {
							edited[i] = "zqxv"
						}
					}
					for _, q := range []string{t, strings.Join(edited, " "), "intro words about rights " + strings.Join(edited[3:], " ") + " trailing version"} {
						nq++
						n1 := normalize(q)
						hc.queries = append(hc.queries, n1)
						var a, b sc.Matches
						vsync.RunDefault(func() { a = in.MultipleMatch(n1) })
						vsync.RunDefault(func() { b = ref.MultipleMatch(normalize(n1)) })
						if fmtMatches(a) != fmtMatches(b) && msg == "" {
							msg = fmt.Sprintf("after load %d of the history: MultipleMatch differs: archive-loaded [%s], directly built [%s]", step+1, fmtMatches(a), fmtMatches(b))
						}
					}
				}
			}()
			if msg != "" {
				break
			}
		}
		r.Note = map[string]interface{}{"hist": strings.Join(desc, " ; "), "msg": msg, "nq": nq}
	}
	e := c.Explorer(0)
	e.SplitDepth = 2
	c.Run(e, body, func(r *vx.Run) {
		h := r.Note["hist"].(string)
		for i := 0; i < r.Note["nq"].(int); i++ {
			c.Nontrivial(fmt.Sprintf("%s|%d", h, i))
		}
		c.R.Transitions += int64(len(r.Choices) - 1)
		if len(r.Choices) > 2 {
			c.Sample(h)
		}
		if m := r.Note["msg"].(string); m != "" {
			c.Violate("c15_history:"+strings.ReplaceAll(h, " ", ""), h+": "+m, r, m)
		}
	})
	c.R.States = c.R.Evaluations
}

// limitWriter accepts a number of bytes and fails from then on.
type limitWriter struct{ left int }

func (w *limitWriter) Write(p []byte) (int, error) {
	if len(p) > w.left {
		n := w.left
		w.left = 0
		return n, fmt.Errorf("injected: device full")
	}
	w.left -= len(p)
	return len(p), nil
}

// tie: both names achieve the same confidence on their own (ties are undefined by the doc comment).
func tie(texts map[string]string, q string, a, b *sc.Match) bool {
	conf := func(name string) float64 {
		t, ok := texts[name]
		if !ok {
			return -1
		}
		one := sc.New(lc.DefaultConfidenceThreshold)
		one.AddValue(name, t)
		var m *sc.Match
		vsync.RunDefault(func() { m = one.NearestMatch(q) })
		return m.Confidence
	}
	return conf(a.Name) == conf(b.Name)
}

// ---------------------------------------------------------------- C16

var (
	fullOnce sync.Once
	fullLic  *lc.License
)

func fullLicense() *lc.License {
	fullOnce.Do(func() {
		// another, small archive has been loaded in this process before (a tool that first builds a
		// classifier over a subset): what a later classifier knows must not depend on it
		{
			var small bytes.Buffer
			if err := serializer.ArchiveLicenses([]string{"MIT.txt", "ISC.txt", "Unlicense.txt"}, &small); err != nil {
				panic(err)
			}
			if _, err := lc.New(lc.DefaultConfidenceThreshold, lc.ArchiveBytes(small.Bytes())); err != nil {
				panic(err)
			}
		}
		var buf bytes.Buffer
		if err := serializer.ArchiveLicenses(licenseFiles(), &buf); err != nil {
			panic(err)
		}
		l, err := lc.New(lc.DefaultConfidenceThreshold, lc.ArchiveBytes(buf.Bytes()))
		if err != nil {
			panic(err)
		}
		fullLic = l
	})
	return fullLic
}

type variant struct {
	name string
	fn   func(string) string
}

func perLine(prefix string) func(string) string {
	return func(s string) string {
		ls := strings.Split(s, "\n")
		for i := range ls {
			ls[i] = prefix + ls[i]
		}
		return strings.Join(ls, "\n")
	}
}

var variants = []variant{
	{"identity", func(s string) string { return s }},
	{"upper", strings.ToUpper},
	{"slashes", perLine("// ")},
	{"one-line", func(s string) string { return strings.Join(strings.Fields(s), " ") }},
	// comment markers that are WORDS (batch files, m4): they survive normalisation, the text is a
	// few percent longer than the license and never takes the exact-match shortcut
	{"rem", perLine("REM ")},
	// decoration that makes the raw text much longer than its normalised form: a box comment padded
	// to a right-hand border, and a deeply indented comment block
	{"box", func(s string) string {
		ls := strings.Split(s, "\n")
		w := 0
		for _, l := range ls {
			if len(l) > w {
				w = len(l)
			}
		}
		for i, l := range ls {
			ls[i] = "/* " + l + strings.Repeat(" ", w-len(l)) + " */"
		}
		return strings.Join(ls, "\n")
	}},
	{"indent24", perLine(strings.Repeat(" ", 24) + "// ")},
	{"lower", strings.ToLower},
	{"reflow", func(s string) string { return strings.Join(strings.Fields(s), "  \n ") }},
	{"hash", perLine("# ")},
	{"star", perLine(" * ")},
	{"dnl", perLine("dnl ")},
}

func c16Corpus(c *vrep.Ctx) {
	if !instrumented() {
		panic("c16 needs the v1 instrumentation profile")
	}
	files := licenseFiles()
	nv := c.ParamInt("variants", c.Pick(7, len(variants)))
	l := fullLicense()
	// job parameter t=<threshold>: the classifier is CONSTRUCTED with another threshold; what
	// NearestMatch names, and with which confidence, does not depend on it
	built := lc.DefaultConfidenceThreshold
	if ts := c.Param("t", ""); ts != "" {
		fmt.Sscan(ts, &built)
		var buf bytes.Buffer
		if err := serializer.ArchiveLicenses(licenseFiles(), &buf); err != nil {
			panic(err)
		}
		var err error
		if l, err = lc.New(built, lc.ArchiveBytes(buf.Bytes())); err != nil {
			panic(err)
		}
	}
	c.R.Rule = fmt.Sprintf("every one of the %d shipped license files x %d presentation variants (identity, upper, // decoration, whole text re-flowed onto one line, REM decoration, box comment padded to a right-hand border, 24 blanks + // ; thorough adds lower, one word per line, # and * decoration, dnl decoration) against the License classifier built from the full archive with threshold %v: NearestMatch must return the file's canonical name (file name minus .txt and .header) with confidence >= %v; finite and complete", len(files), nv, built, lc.DefaultConfidenceThreshold)
	c.Bound("files", len(files))
	c.Bound("variants", nv)
	// v1 compares character by character against every known text of similar length; with the
	// diff clock frozen (no 1 s cut-off) a non-identical multi-10KB text costs many seconds per
	// candidate, so the non-identity variants are bounded by file size and the bound is reported
	maxBytes := c.ParamInt("maxbytes", c.Pick(2500, 12000))
	c.Bound("non_identity_variants_up_to_bytes", maxBytes)
	body := func(r *vx.Run) {
		fi := r.Choose(len(files), "file")
		vi := r.Choose(nv, "variant")
		f := files[fi]
		if vi > 0 && len(readFile(f)) > maxBytes {
			r.Note = map[string]interface{}{"skip": true}
			return
		}
		text := variants[vi].fn(readFile(f))
		want := strings.TrimSuffix(strings.TrimSuffix(f, ".txt"), ".header")
		var m *sc.Match
		t0 := time.Now()
		p, d, _ := vsync.RunDefault(func() { m = l.NearestMatch(text) })
		if el := time.Since(t0); el > 2*time.Second && os.Getenv("VERIF_SLOW") != "" {
			fmt.Printf("SLOW %v %s %s\n", el, f, variants[vi].name)
		}
		msg := ""
		switch {
		case p != "" || d != "":
			msg = fmt.Sprintf("panic=%q deadlock=%q", p, d)
		case m == nil:
			msg = "NearestMatch returned nil (no common license word found)"
		case m.Name != want || !(m.Confidence >= lc.DefaultConfidenceThreshold):
			msg = fmt.Sprintf("NearestMatch = %s with confidence %v, want %s with confidence >= %v", m.Name, m.Confidence, want, lc.DefaultConfidenceThreshold)
		}
		r.Note = map[string]interface{}{"id": f + "|" + variants[vi].name, "msg": msg}
	}
	c.Run(c.Explorer(0), body, func(r *vx.Run) {
		if r.Note["skip"] != nil {
			c.R.Evaluations--
			return
		}
		id := r.Note["id"].(string)
		c.Nontrivial(id)
		c.Sample(id)
		if m := r.Note["msg"].(string); m != "" {
			c.Violate("c16:"+id, id+": "+m, r, m)
		} else {
			c.Outcome("identified")
		}
	})
}

func c16Threshold(c *vrep.Ctx) {
	if !instrumented() {
		panic("c16 needs the v1 instrumentation profile")
	}
	files := licenseFiles()
	var pool []string
	n := c.Pick(10, 40)
	for i := 0; i < n; i++ {
		pool = append(pool, files[i*len(files)/n])
	}
	// thresholds, and the threshold each classifier was BUILT with: License.Threshold is an exported
	// field that callers set after New (the repository's own tests do), so "the classifier's
	// threshold" is its current value
	ths := []float64{0.5, 0.8, 0.95, 0.95, 0.9, 0.6}
	built := []float64{0.5, 0.8, 0.95, 0.5, 0.8, 0.9}
	var buf bytes.Buffer
	if err := serializer.ArchiveLicenses(files, &buf); err != nil {
		panic(err)
	}
	ls := make([]*lc.License, len(ths))
	for i, t := range ths {
		l, err := lc.New(built[i], lc.ArchiveBytes(buf.Bytes()))
		if err != nil {
			panic(err)
		}
		l.Threshold = t
		ls[i] = l
	}
	adaptive, err := lc.New(0.5, lc.ArchiveBytes(buf.Bytes()))
	if err != nil {
		panic(err)
	}
	c.R.Rule = fmt.Sprintf("MultipleMatch never returns a match below the classifier's threshold: %d pool files x query kinds {exact, lightly edited (every 9th word replaced), heavily edited (every 4th), first half, two files concatenated, unrelated, two/three licenses each stretched by a block of 15/30/45%% foreign words (several weak candidates in one input)} x includeHeaders x thresholds %v (the last three set through the exported Threshold field on classifiers built with 0.5, 0.8, 0.9); every returned confidence must be >= threshold and <= 1; for one confidence c seen at threshold 0.5 the query is repeated at threshold c + 0.0025 (no round number); non-trivial = queries that returned at least one match", len(pool), ths)
	body := func(r *vx.Run) {
		fi := r.Choose(len(pool), "file")
		kind := r.Choose(9, "kind")
		hdr := r.Choose(2, "headers") == 1
		ti := r.Choose(len(ths), "threshold")
		text := readFile(pool[fi])
		edit := func(every int) string {
			w := strings.Fields(text)
			for i := range w {
				if i%every == every-1 {
					w[i] = "zqxv"
				}
			}
			return strings.Join(w, " ")
		}
		switch kind {
		case 1:
			text = edit(9)
		case 2:
			text = edit(4)
		case 3:
			text = text[:len(text)/2]
		case 4:
			text = text + "\n\n" + readFile(pool[(fi+1)%len(pool)])
		case 5:
			text = "completely unrelated software text with version and rights words"
		case 6, 7, 8:
			// weak candidates: every token of the license is still there, but a block of foreign words
			// in the middle stretches the range so that the confidence falls below the threshold;
			// two or three such damaged licenses in one input
			block := func(t string, pct int) string {
				w := strings.Fields(t)
				var f []string
				for i := 0; i < len(w)*pct/100; i++ {
					f = append(f, "zqxv")
				}
				mid := len(w) / 2
				return strings.Join(w[:mid], " ") + " " + strings.Join(f, " ") + " " + strings.Join(w[mid:], " ")
			}
			pct := []int{15, 30, 45}[kind-6]
			text = block(text, pct) + "\n\n" + strings.Repeat("filler words between the two texts ", 10) + "\n\n" + block(readFile(pool[(fi+1)%len(pool)]), pct)
			if kind == 8 {
				text += "\n\n" + strings.Repeat("more filler words here ", 10) + "\n\n" + block(readFile(pool[(fi+2)%len(pool)]), 30)
			}
		}
		var ms sc.Matches
		p, d, _ := vsync.RunDefault(func() { ms = ls[ti].MultipleMatch(text, hdr) })
		msg := ""
		if p != "" || d != "" {
			msg = fmt.Sprintf("panic=%q deadlock=%q", p, d)
		}
		for _, m := range ms {
			if !(m.Confidence >= ths[ti] && m.Confidence <= 1) {
				msg = fmt.Sprintf("match %s has confidence %v, threshold is %v", m.Name, m.Confidence, ths[ti])
			}
		}
		// thresholds that are no round numbers: just above each confidence seen at the lowest threshold
		// (a quarter of a percent, so the two share their first two decimals most of the time)
		if ti == 0 && msg == "" {
			seen := map[float64]bool{}
			for _, m := range ms {
				if m.Confidence < 0.995 && !seen[m.Confidence] && len(seen) < 1 && kind != 4 && kind != 8 {
					seen[m.Confidence] = true
					t2 := m.Confidence + 0.0025
					adaptive.Threshold = t2
					var ms2 sc.Matches
					p, d, _ := vsync.RunDefault(func() { ms2 = adaptive.MultipleMatch(text, hdr) })
					if p != "" || d != "" {
						msg = fmt.Sprintf("panic=%q deadlock=%q", p, d)
					}
					for _, m2 := range ms2 {
						if !(m2.Confidence >= t2) {
							msg = fmt.Sprintf("match %s has confidence %v, threshold is %v (set through the Threshold field)", m2.Name, m2.Confidence, t2)
						}
					}
				}
			}
		}
		r.Note = map[string]interface{}{"id": fmt.Sprintf("%s kind%d headers=%v T=%v(built %v)", pool[fi], kind, hdr, ths[ti], built[ti]), "msg": msg, "n": len(ms)}
	}
	c.Run(c.Explorer(0), body, func(r *vx.Run) {
		id := r.Note["id"].(string)
		if r.Note["n"].(int) > 0 {
			c.Nontrivial(id)
			c.Sample(id)
		}
		if m := r.Note["msg"].(string); m != "" {
			c.Violate("c16_threshold:"+strings.ReplaceAll(id, " ", "_"), id+": "+m, r, m)
		}
	})
}

// ---------------------------------------------------------------- C14 (License)

func smallLicense() *lc.License {
	var buf bytes.Buffer
	if err := serializer.ArchiveLicenses([]string{"MIT.txt", "ISC.txt", "BSD-2-Clause.txt"}, &buf); err != nil {
		panic(err)
	}
	l, err := lc.New(lc.DefaultConfidenceThreshold, lc.ArchiveBytes(buf.Bytes()))
	if err != nil {
		panic(err)
	}
	return l
}

func c14LicenseSched(c *vrep.Ctx) {
	if !instrumented() {
		panic("needs the v1 instrumentation profile")
	}
	budget := c.ParamInt("budget", c.Pick(2, 3))
	l := smallLicense()
	mit, isc := readFile("MIT.txt"), readFile("ISC.txt")
	// shorten: the character-level diff of full texts is slow; the tail of each license still identifies it
	ops := []func() string{
		func() string { return fmtMatches(l.MultipleMatch(mit, false)) },
		func() string { m := l.NearestMatch(isc); return fmt.Sprintf("%s %v", m.Name, m.Confidence) },
	}
	if c.ParamInt("scenario", 0) == 1 {
		// texts that pass the common-word gate through DIFFERENT words, neither of them the first of
		// the list (the gate and everything else the License type shares between calls)
		near := func(text string) func() string {
			return func() string {
				m := l.NearestMatch(text)
				if m == nil {
					return "nil"
				}
				return fmt.Sprintf("%s %v", m.Name, m.Confidence)
			}
		}
		t1 := "permission to use copy modify and distribute under these terms is hereby granted zqa zqb"
		t2 := "the above notice shall be included in all copies of this work zqc zqd"
		ops = []func() string{near(t1), near(t2), func() string { return fmtMatches(l.MultipleMatch(t1+"\n"+t2, true)) }}
	}
	want := make([]string, len(ops))
	for i, op := range ops {
		i, op := i, op
		vsync.RunDefault(func() { want[i] = op() })
	}
	c.R.Rule = fmt.Sprintf("controlled scheduler: MultipleMatch(MIT text) || NearestMatch(ISC text) (scenario 1: three calls on short texts that pass the common-word gate through different words) on one licenseclassifier.License built from a 3-license archive (precomputed search sets); every interleaving of the callers and the library's worker goroutines within delay bound %d; no race on watched locations, no deadlock/panic, each call returns its solo result", budget)
	c.Bound("delay_bound", budget)
	body := func(r *vx.Run) {
		s := vsync.New(r, vsync.Delay)
		s.Horizon = 5000000
		got := make([]string, len(ops))
		s.Main(func() {
			var wg vsync.WaitGroup
			wg.Add(len(ops))
			for i := range ops {
				i := i
				vsync.Go(fmt.Sprintf("caller%d", i), func() { got[i] = ops[i](); wg.Done() })
			}
			wg.Wait()
		})
		msg := ""
		switch {
		case s.Panic != "":
			msg = "panic: " + s.Panic
		case s.Deadlock != "":
			msg = s.Deadlock
		case len(s.Races) > 0:
			msg = s.Races[0].String()
		default:
			for i := range ops {
				if got[i] != want[i] {
					msg = fmt.Sprintf("call %d returned %q concurrently, %q alone", i, got[i], want[i])
				}
			}
		}
		r.Note = map[string]interface{}{"msg": msg, "steps": s.Steps, "switches": s.Switches}
	}
	e := c.Explorer(budget)
	e.SplitDepth = 6
	c.Run(e, body, func(r *vx.Run) {
		c.R.Transitions += int64(r.Note["steps"].(int))
		c.R.Nontrivial++
		if c.R.Evaluations%50 == 1 {
			c.Sample(map[string]interface{}{"schedule_choices": fmt.Sprint(r.Choices), "context_switches": r.Note["switches"]})
		}
		if m := r.Note["msg"].(string); m != "" {
			c.Violate("c14_license:"+strings.SplitN(m, " returned ", 2)[0], fmt.Sprintf("schedule %v: %s", r.Choices, m), r, m)
		}
	})
	c.R.States = c.R.Evaluations
}

func c14LicenseRace(c *vrep.Ctx) {
	l := smallLicense()
	texts := []string{readFile("MIT.txt"), readFile("ISC.txt"), readFile("BSD-2-Clause.txt"), "unrelated software text"}
	n := c.Pick(16, 48)
	c.R.Rule = fmt.Sprintf("free-running companion (sampling): %d goroutines calling MultipleMatch/NearestMatch on one License, -race build", n)
	var wg sync.WaitGroup
	for g := 0; g < n; g++ {
		wg.Add(1)
		go func(g int) {
			defer wg.Done()
			if g%2 == 0 {
				l.MultipleMatch(texts[g%len(texts)], g%4 == 0)
			} else {
				l.NearestMatch(texts[g%len(texts)])
			}
		}(g)
	}
	wg.Wait()
	c.R.Evaluations = int64(n)
	c.R.Nontrivial = int64(n)
	c.Sample(map[string]interface{}{"goroutines": n})
	c.R.Exhaustive = false
}
