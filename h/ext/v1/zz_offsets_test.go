//go:build verif

package v1

import (
	"archive/tar"
	"bytes"
	"compress/gzip"
	"fmt"
	"io"
	"os"
	"testing"

	"github.com/google/licenseclassifier/serializer"
)

func TestDebugOffsets(t *testing.T) {
	if os.Getenv("VERIF_DEBUG_OFFSETS") == "" {
		t.Skip()
	}
	installReader()
	seen := map[int]bool{}
	for n := 4096; n <= 9984; n += 32 {
		var buf bytes.Buffer
		if err := serializer.ArchiveLicenses([]string{padName(n), "after-pad.txt"}, &buf); err != nil {
			t.Fatal(err)
		}
		zr, _ := gzip.NewReader(&buf)
		raw, _ := io.ReadAll(zr)
		tr := tar.NewReader(bytes.NewReader(raw))
		pos := 0
		for {
			h, err := tr.Next()
			if err != nil {
				break
			}
			pos += 512
			if h.Name == "after-pad.txt" {
				seen[(pos%32768)/512] = true
				fmt.Printf("n=%d data offset %d (mod 32768 = %d) size %d\n", n, pos, pos%32768, h.Size)
			}
			pos += int((h.Size + 511) / 512 * 512)
		}
	}
	fmt.Println("residues hit:", len(seen))
}
