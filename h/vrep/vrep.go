// Package vrep is the worker side of a check: harness registry, run context
// (tier, shard, deadline, parameters), the per-run report that becomes
// evidence, violation records and replay files.
package vrep

import (
	"encoding/json"
	"fmt"
	"hash/fnv"
	"os"
	"runtime"
	"sort"
	"strconv"
	"strings"
	"testing"
	"time"

	"verifh/vx"
)

// ReplayFile is the artefact that reproduces one execution without search.
type ReplayFile struct {
	Property    string            `json:"property"`
	Package     string            `json:"package"`
	Harness     string            `json:"harness"`
	Tier        string            `json:"tier"`
	Params      map[string]string `json:"params,omitempty"`
	Choices     []int             `json:"choices"`
	Labels      []string          `json:"labels,omitempty"`
	Observation string            `json:"observation"`
	Key         string            `json:"key"`
	What        string            `json:"what"`
	Race        bool              `json:"race,omitempty"`
	Whole       bool              `json:"whole,omitempty"` // no choice list: the replay re-runs the whole harness job
}

// Violation is one failing execution.
type Violation struct {
	Key    string     `json:"key"` // identity of the specific failing case (known-findings matching)
	What   string     `json:"what"`
	Replay ReplayFile `json:"replay"`
}

// Report is what one worker hands back to vcheck.
type Report struct {
	Property    string                 `json:"property"`
	Harness     string                 `json:"harness"`
	Shard       int                    `json:"shard"`
	Evaluations int64                  `json:"evaluations"`
	Nontrivial  int64                  `json:"nontrivial"`
	Outcomes    int64                  `json:"outcomes"`
	States      int64                  `json:"states"`
	Transitions int64                  `json:"transitions"`
	Validated   int64                  `json:"validated"`
	Samples     []interface{}          `json:"samples"`
	Violations  []Violation            `json:"violations"`
	NViolations int64                  `json:"n_violations"`
	Exhaustive  bool                   `json:"exhaustive"`
	Bounds      map[string]interface{} `json:"bounds"`
	Assumptions []string               `json:"assumptions"`
	Rule        string                 `json:"rule"`
	Notes       []string               `json:"notes"`
	WallS       float64                `json:"wall_s"`
	Nondet      []string               `json:"nondeterminism"`
	Fatal       string                 `json:"fatal,omitempty"`
}

// Ctx is handed to every harness.
type Ctx struct {
	T        *testing.T
	Property string
	Package  string
	Harness  string
	Tier     string
	Shard    int
	Shards   int
	Seed     int64
	Params   map[string]string
	Replay   *ReplayFile // non-nil: replay mode
	R        *Report
	deadline time.Time
	ntKeys   map[uint64]struct{}
	outKeys  map[uint64]struct{}
	vioKeys  map[string]int
	maxVio   int
	start    time.Time
}

// Thorough reports whether the thorough tier was requested.
func (c *Ctx) Thorough() bool { return c.Tier == "thorough" }

// Pick returns q in the quick tier and t in the thorough tier.
func (c *Ctx) Pick(q, t int) int {
	if c.Thorough() {
		return t
	}
	return q
}

// Expired reports whether the internal deadline has passed. A harness that
// stops because of it must leave Exhaustive false.
func (c *Ctx) Expired() bool { return !c.deadline.IsZero() && time.Now().After(c.deadline) }

// Param returns a harness parameter or a default.
func (c *Ctx) Param(k, def string) string {
	if v, ok := c.Params[k]; ok {
		return v
	}
	return def
}

// ParamInt returns an integer parameter or a default.
func (c *Ctx) ParamInt(k string, def int) int {
	if v, ok := c.Params[k]; ok {
		n, err := strconv.Atoi(v)
		if err != nil {
			panic(err)
		}
		return n
	}
	return def
}

func h64(s string) uint64 { h := fnv.New64a(); h.Write([]byte(s)); return h.Sum64() }

// Eval counts one evaluated case.
func (c *Ctx) Eval() { c.R.Evaluations++ }

// Nontrivial records a distinct non-trivial case by key.
func (c *Ctx) Nontrivial(key string) {
	k := h64(key)
	if _, ok := c.ntKeys[k]; !ok {
		c.ntKeys[k] = struct{}{}
		c.R.Nontrivial++
	}
}

// Outcome records a distinct observed outcome.
func (c *Ctx) Outcome(key string) {
	k := h64(key)
	if _, ok := c.outKeys[k]; !ok {
		c.outKeys[k] = struct{}{}
		c.R.Outcomes++
	}
}

// Sample keeps up to n written-out cases.
func (c *Ctx) Sample(v interface{}) {
	if len(c.R.Samples) < 4 {
		c.R.Samples = append(c.R.Samples, v)
	}
}

// Assume records an assumption once.
func (c *Ctx) Assume(s string) {
	for _, a := range c.R.Assumptions {
		if a == s {
			return
		}
	}
	c.R.Assumptions = append(c.R.Assumptions, s)
}

// Note adds a free-text note once.
func (c *Ctx) Note(s string) {
	for _, a := range c.R.Notes {
		if a == s {
			return
		}
	}
	c.R.Notes = append(c.R.Notes, s)
}

// Bound records a completed bound.
func (c *Ctx) Bound(k string, v interface{}) { c.R.Bounds[k] = v }

// Violate records a violation. key identifies the specific failing case; at
// most a few violations per key are kept in full.
func (c *Ctx) Violate(key, what string, r *vx.Run, observation string) {
	c.R.NViolations++
	c.vioKeys[key]++
	if c.vioKeys[key] > 1 || len(c.R.Violations) >= c.maxVio {
		return
	}
	rf := ReplayFile{Property: c.Property, Package: c.Package, Harness: c.Harness, Tier: c.Tier,
		Params: c.Params, Observation: observation, Key: key, What: what}
	if r != nil {
		rf.Choices = append([]int(nil), r.Choices...)
		rf.Labels = append([]string(nil), r.Labels...)
	}
	c.R.Violations = append(c.R.Violations, Violation{Key: key, What: what, Replay: rf})
}

// Nondeterminism records that the same choice list gave two observations.
func (c *Ctx) Nondeterminism(msg string) { c.R.Nondet = append(c.R.Nondet, msg) }

// Explorer returns an explorer configured for this worker (sharding on the
// first choice point, deadline as stop condition).
func (c *Ctx) Explorer(budget int) *vx.Explorer {
	return &vx.Explorer{Budget: budget, Shard: c.Shard, Shards: c.Shards, WantLabels: false, Stop: c.Expired}
}

// LibraryPanic inspects the stack of the panic being recovered (call it from the deferred
// function): it reports the panicking repository function when the first frame that belongs to
// the repository or to the harness is repository code (not an injected zz_verif_ file, not
// verifh). A panic raised by harness code is a harness error, never a finding.
func LibraryPanic() (fn string, ok bool) {
	pcs := make([]uintptr, 64)
	n := runtime.Callers(2, pcs)
	frames := runtime.CallersFrames(pcs[:n])
	seenPanic := false
	for {
		f, more := frames.Next()
		if strings.HasPrefix(f.Function, "runtime.gopanic") || strings.HasPrefix(f.Function, "runtime.panic") || strings.HasPrefix(f.Function, "runtime.goPanic") || strings.HasPrefix(f.Function, "runtime.sigpanic") {
			seenPanic = true
		} else if seenPanic {
			harness := strings.Contains(f.File, "zz_verif_") || strings.HasPrefix(f.Function, "verifh/") || strings.Contains(f.File, "/verif/h/")
			if harness {
				return "", false
			}
			if strings.HasPrefix(f.Function, "github.com/google/licenseclassifier") {
				return fmt.Sprintf("%s (%s:%d)", f.Function[strings.LastIndex(f.Function, "/")+1:], f.File[strings.LastIndex(f.File, "/")+1:], f.Line), true
			}
		}
		if !more {
			return "", false
		}
	}
}

const replayEvery = 251

// Harness is a registered harness body.
type Harness func(*Ctx)

// Main is called from the in-package TestVerif of every harness package.
func Main(t *testing.T, pkg string, reg map[string]Harness) {
	wholeReplay := false
	name := os.Getenv("VERIF_HARNESS")
	if name == "" {
		t.Skip("VERIF_HARNESS not set")
	}
	c := &Ctx{T: t, Package: pkg, Harness: name, Tier: os.Getenv("VERIF_TIER"), Shards: 1,
		Params: map[string]string{}, ntKeys: map[uint64]struct{}{}, outKeys: map[uint64]struct{}{},
		vioKeys: map[string]int{}, maxVio: 40, start: time.Now()}
	if c.Tier == "" {
		c.Tier = "quick"
	}
	c.Property = os.Getenv("VERIF_PROPERTY")
	if v := os.Getenv("VERIF_SHARD"); v != "" {
		c.Shard, _ = strconv.Atoi(v)
	}
	if v := os.Getenv("VERIF_SHARDS"); v != "" {
		c.Shards, _ = strconv.Atoi(v)
	}
	if v := os.Getenv("VERIF_SEED"); v != "" {
		c.Seed, _ = strconv.ParseInt(v, 10, 64)
	}
	if v := os.Getenv("VERIF_DEADLINE_S"); v != "" {
		s, _ := strconv.ParseFloat(v, 64)
		if s > 0 {
			c.deadline = time.Now().Add(time.Duration(s * float64(time.Second)))
		}
	}
	if v := os.Getenv("VERIF_PARAMS"); v != "" {
		for _, kv := range strings.Split(v, ";") {
			if i := strings.Index(kv, "="); i > 0 {
				c.Params[kv[:i]] = kv[i+1:]
			}
		}
	}
	if v := os.Getenv("VERIF_REPLAY"); v != "" {
		b, err := os.ReadFile(v)
		if err != nil {
			t.Fatal(err)
		}
		var rf ReplayFile
		if err := json.Unmarshal(b, &rf); err != nil {
			t.Fatal(err)
		}
		c.Replay = &rf
		if rf.Whole {
			c.Replay = nil
			wholeReplay = true
		}
		c.Params = rf.Params
		if c.Params == nil {
			c.Params = map[string]string{}
		}
		c.Tier = rf.Tier
		c.Property = rf.Property
		c.Shard, c.Shards = 0, 1
	}
	c.R = &Report{Property: c.Property, Harness: name, Shard: c.Shard, Exhaustive: true, Bounds: map[string]interface{}{}}
	h, ok := reg[name]
	if !ok {
		var names []string
		for k := range reg {
			names = append(names, k)
		}
		sort.Strings(names)
		t.Fatalf("unknown harness %q (have %v)", name, names)
	}
	func() {
		defer func() {
			if x := recover(); x != nil {
				c.R.Exhaustive = false
				if fn, ok := LibraryPanic(); ok {
					// repository code panicked under a harness that does not expect panics: whatever the
					// property demands of the call's result, the call did not deliver one
					c.Violate("panic:"+fn, fmt.Sprintf("repository code panicked in %s: %v (the harness stopped here; replay re-runs the harness)", fn, x), nil, fmt.Sprint(x))
					c.R.Violations[len(c.R.Violations)-1].Replay.Whole = true
					return
				}
				c.R.Fatal = fmt.Sprintf("harness panic: %v", x)
			}
		}()
		h(c)
	}()
	c.R.WallS = time.Since(c.start).Seconds()
	if out := os.Getenv("VERIF_OUT"); out != "" {
		b, _ := json.Marshal(c.R)
		if err := os.WriteFile(out, b, 0o644); err != nil {
			t.Fatal(err)
		}
	} else {
		b, _ := json.MarshalIndent(c.R, "", " ")
		fmt.Println(string(b))
	}
	if c.R.Fatal != "" {
		t.Fatalf("%s", c.R.Fatal)
	}
	if (c.Replay != nil || wholeReplay) && c.R.NViolations > 0 {
		t.Fatalf("replayed violation reproduced: %s", c.R.Violations[0].What)
	}
}

// Run drives a body either in replay mode (exactly the recorded choice list)
// or through the explorer. check is called after every execution.
func (c *Ctx) Run(e *vx.Explorer, body func(*vx.Run), check func(*vx.Run)) {
	inner, innerCheck := body, check
	body = func(r *vx.Run) {
		defer func() {
			if x := recover(); x != nil {
				if fn, ok := LibraryPanic(); ok {
					r.Note = map[string]interface{}{"__panic": fmt.Sprint(x), "__fn": fn}
					return
				}
				panic(x)
			}
		}()
		inner(r)
	}
	check = func(r *vx.Run) {
		if p, ok := r.Note["__panic"].(string); ok {
			fn := r.Note["__fn"].(string)
			c.Violate("panic:"+fn, fmt.Sprintf("repository code panicked in %s: %s (choices %v)", fn, p, r.Choices), r, p)
			return
		}
		if innerCheck != nil {
			innerCheck(r)
		}
	}
	if c.Replay != nil {
		r := vx.Replay(c.Replay.Choices, body)
		c.R.Evaluations++
		if check != nil {
			check(r)
		}
		return
	}
	e.Explore(body, func(r *vx.Run) {
		c.R.Evaluations++
		// determinism validation: every ReplayEvery-th execution that exposes an observation
		// (r.Note["obs"]) is re-executed from its recorded choice list and must observe the same
		if obs, ok := r.Note["obs"].(string); ok && c.R.Evaluations%replayEvery == 1 {
			r2 := vx.Replay(r.Choices, body)
			if o2, _ := r2.Note["obs"].(string); o2 != obs {
				c.Nondeterminism(fmt.Sprintf("%s: choices %v observed %q, replay observed %q", c.Harness, r.Choices, obs, o2))
			} else {
				c.R.Validated++
			}
		}
		if check != nil {
			check(r)
		}
	})
	if e.Capped {
		c.R.Exhaustive = false
	}
}
