module verifh

go 1.23

require (
	github.com/davecgh/go-spew v1.1.1
	github.com/google/go-cmp v0.6.0
	github.com/google/licenseclassifier v0.0.0
	github.com/google/licenseclassifier/v2 v2.0.0
	github.com/sergi/go-diff v1.1.0
	golang.org/x/tools v0.29.0
)

require (
	golang.org/x/mod v0.22.0 // indirect
	golang.org/x/sync v0.10.0 // indirect
)

replace github.com/google/licenseclassifier => /repo

replace github.com/google/licenseclassifier/v2 => /repo/v2
