package verifh

import (
	_ "github.com/google/licenseclassifier"
	_ "github.com/google/licenseclassifier/v2"
	_ "golang.org/x/tools/go/packages"
)
