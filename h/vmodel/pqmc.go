package vmodel

import (
	"fmt"
	"sort"

	"verifh/vrep"
)

// QueueAPI adapts the real priority queue (white-box: Array exposes the heap
// array so the search can key states on it and check positions).
type QueueAPI struct {
	New    func(less func(x, y interface{}) bool, setIndex func(x interface{}, idx int)) interface{}
	Len    func(q interface{}) int
	Push   func(q interface{}, x interface{})
	Min    func(q interface{}) interface{}
	Pop    func(q interface{}) interface{}
	Fix    func(q interface{}, i int)
	Remove func(q interface{}, i int)
	Array  func(q interface{}) []interface{}
}

// Item is the element type the search pushes.
type Item struct {
	Prio int
	ID   int
	Idx  int // maintained through setIndex
}

type qop struct {
	kind string
	a, b int
}

func (o qop) String() string {
	switch o.kind {
	case "Push":
		return fmt.Sprintf("Push(p%d)", o.a)
	case "Fix":
		return fmt.Sprintf("a[%d].prio=%d;Fix(%d)", o.a, o.b, o.a)
	case "Remove":
		return fmt.Sprintf("Remove(%d)", o.a)
	}
	return o.kind
}

type qmc struct {
	api      *QueueAPI
	prios    int
	maxSize  int
	maxFirst bool
	withIdx  bool
	nextID   int
}

func (m *qmc) less(x, y interface{}) bool {
	if m.maxFirst {
		return x.(*Item).Prio > y.(*Item).Prio
	}
	return x.(*Item).Prio < y.(*Item).Prio
}

func (m *qmc) ops() []qop {
	var o []qop
	for p := 1; p <= m.prios; p++ {
		o = append(o, qop{"Push", p, 0})
	}
	o = append(o, qop{"Pop", 0, 0}, qop{"Min", 0, 0})
	for i := 0; i < m.maxSize; i++ {
		for p := 1; p <= m.prios; p++ {
			o = append(o, qop{"Fix", i, p})
		}
		o = append(o, qop{"Remove", i, 0})
	}
	return o
}

func (m *qmc) newQ() interface{} {
	var si func(x interface{}, idx int)
	if m.withIdx {
		si = func(x interface{}, idx int) { x.(*Item).Idx = idx }
	}
	return m.api.New(m.less, si)
}

func key(arr []interface{}) string {
	b := make([]byte, len(arr))
	for i, x := range arr {
		b[i] = byte('0' + x.(*Item).Prio)
	}
	return string(b)
}

// enabled reports whether op applies in a state with n elements.
func (m *qmc) enabled(o qop, n int) bool {
	switch o.kind {
	case "Push":
		return n < m.maxSize
	case "Pop", "Min":
		return n > 0
	default:
		return o.a < n
	}
}

// step applies op to the real queue and the model multiset, checking the
// invariants; model is the sorted multiset of priorities.
func (m *qmc) step(q interface{}, model *[]int, o qop) string {
	a := m.api
	best := func() int {
		if m.maxFirst {
			return (*model)[len(*model)-1]
		}
		return (*model)[0]
	}
	del := func(p int) bool {
		for i, x := range *model {
			if x == p {
				*model = append((*model)[:i:i], (*model)[i+1:]...)
				return true
			}
		}
		return false
	}
	switch o.kind {
	case "Push":
		m.nextID++
		a.Push(q, &Item{Prio: o.a, ID: m.nextID, Idx: -7})
		*model = append(*model, o.a)
		sort.Ints(*model)
	case "Min":
		x := a.Min(q).(*Item)
		if x.Prio != best() {
			return fmt.Sprintf("Min() has priority %d, minimal under the comparator is %d", x.Prio, best())
		}
	case "Pop":
		want := best()
		x := a.Pop(q).(*Item)
		if x.Prio != want {
			return fmt.Sprintf("Pop() returned priority %d, minimal under the comparator is %d", x.Prio, want)
		}
		del(x.Prio)
	case "Fix":
		it := a.Array(q)[o.a].(*Item)
		del(it.Prio)
		it.Prio = o.b
		*model = append(*model, o.b)
		sort.Ints(*model)
		a.Fix(q, o.a)
	case "Remove":
		it := a.Array(q)[o.a].(*Item)
		a.Remove(q, o.a)
		if !del(it.Prio) {
			return "removed element not in model"
		}
		for _, x := range a.Array(q) {
			if x.(*Item) == it {
				return fmt.Sprintf("Remove(%d) left the element in the queue", o.a)
			}
		}
	}
	arr := a.Array(q)
	if a.Len(q) != len(*model) || len(arr) != len(*model) {
		return fmt.Sprintf("Len()=%d, model multiset has %d elements", a.Len(q), len(*model))
	}
	got := make([]int, len(arr))
	ids := map[int]bool{}
	for i, x := range arr {
		it := x.(*Item)
		got[i] = it.Prio
		if ids[it.ID] {
			return fmt.Sprintf("element id %d is in the queue twice", it.ID)
		}
		ids[it.ID] = true
		if m.withIdx && it.Idx != i {
			return fmt.Sprintf("element at position %d was told index %d by setIndex", i, it.Idx)
		}
		// (the ORDER of the array is the implementation's business - it may well restore it lazily -
		// and is not demanded here; Pop / Min / Remove are judged by what they return and remove)
	}
	sort.Ints(got)
	for i := range got {
		if got[i] != (*model)[i] {
			return fmt.Sprintf("multiset not conserved: queue holds %v, model %v", got, *model)
		}
	}
	return ""
}

// CheckQueue is the explicit-state search over exact heap arrays.
func CheckQueue(c *vrep.Ctx, api *QueueAPI) {
	m := &qmc{api: api, prios: c.ParamInt("prios", c.Pick(4, 5)), maxSize: c.ParamInt("size", c.Pick(7, 8)), maxFirst: c.Param("order", "min") == "max", withIdx: c.Param("setindex", "yes") == "yes"}
	maxDepth := c.ParamInt("depth", c.Pick(14, 18))
	ops := m.ops()
	c.R.Rule = "explicit-state BFS on the real pq.Queue: a state is the exact heap array of priorities (elements of equal priority are interchangeable), a transition is one real call of Push/Pop/Min/Fix(after a priority change)/Remove with every argument; after every transition: Len, setIndex-reported position of every element, conservation of the multiset against a sorted-slice model, Pop/Min minimal under the comparator; non-trivial = distinct (state, operation) pairs"
	c.Bound("priorities", m.prios)
	c.Bound("max_size", m.maxSize)
	c.Bound("max_depth", maxDepth)
	c.Assume("queue state abstraction: two queues whose heap arrays carry the same priority sequence have the same futures (element identity is only used to verify setIndex)")

	rebuild := func(path []int) (interface{}, []int, string) {
		q := m.newQ()
		var model []int
		for _, oi := range path {
			if msg := m.step(q, &model, ops[oi]); msg != "" {
				return q, model, msg
			}
		}
		return q, model, ""
	}
	if c.Replay != nil {
		q := m.newQ()
		var model []int
		for stepi, oi := range c.Replay.Choices {
			if !m.enabled(ops[oi], api.Len(q)) {
				panic("replay: operation not enabled")
			}
			if msg := m.step(q, &model, ops[oi]); msg != "" {
				c.Violate(c.Replay.Key, fmt.Sprintf("step %d %v: %s", stepi, ops[oi], msg), nil, msg)
				return
			}
		}
		return
	}
	seen := map[string][]int{"": nil}
	frontier := []string{""}
	depth := 0
	for len(frontier) > 0 && depth < maxDepth {
		var next []string
		for _, st := range frontier {
			path := seen[st]
			for oi, op := range ops {
				if !m.enabled(op, len(st)) {
					continue
				}
				q, model, msg := rebuild(path)
				if msg != "" {
					panic("prefix failed on rebuild: " + msg)
				}
				if key(api.Array(q)) != st {
					panic("rebuild reached a different state")
				}
				c.R.Transitions++
				c.Eval()
				msg = m.step(q, &model, op)
				full := append(append([]int(nil), path...), oi)
				if msg != "" {
					var names []string
					for _, pi := range full {
						names = append(names, ops[pi].String())
					}
					c.Violate("pq:"+op.kind+":"+msg, fmt.Sprintf("queue(order=%s) after %v: %s", c.Param("order", "min"), names, msg), nil, msg)
					c.R.Violations[len(c.R.Violations)-1].Replay.Choices = full
					continue
				}
				c.R.Validated++
				c.Nontrivial(st + "|" + op.String())
				ns := key(api.Array(q))
				c.Outcome(ns)
				if len(c.R.Samples) < 3 && len(path) >= 3 {
					var names []string
					for _, pi := range full {
						names = append(names, ops[pi].String())
					}
					c.Sample(map[string]interface{}{"ops": names, "heap_array_after": ns})
				}
				if _, ok := seen[ns]; !ok {
					seen[ns] = full
					next = append(next, ns)
				}
			}
		}
		frontier = next
		depth++
	}
	c.R.States = int64(len(seen))
	c.Bound("depth_reached", depth)
	c.Bound("fixpoint", len(frontier) == 0)
}

// CheckQueueLong drives the real queue through LONG operation sequences from a structured family
// (the breadth-first search only reaches sizes <= 8): grow to n elements for EVERY n up to a
// bound, with a priority pattern, then drain completely with a pattern of Pop / Remove(position) /
// Fix, with refill phases in between; every step is checked against the model like in the search.
// Size-dependent behaviour (backing-array growth and shrinking, thresholds) lives here.
func CheckQueueLong(c *vrep.Ctx, api *QueueAPI) {
	maxN := c.ParamInt("maxn", c.Pick(160, 600))
	patterns := []string{"ascending", "descending", "constant", "alternating", "lcg"}
	drains := []string{"pop", "remove-first", "remove-last", "remove-middle", "pop-and-remove-last", "pop-refill-half-pop", "fix-then-pop"}
	c.R.Rule = fmt.Sprintf("long sequences on the real pq.Queue: for EVERY n in 1..%d x %d priority patterns x %d drain patterns x {min, max order}: push n elements, then empty the queue completely (Pop only; Remove of the first / last / middle position; Pop alternating with Remove(last); drain to half, refill to n, drain; change a priority + Fix before every Pop); after every single operation: Len, setIndex positions, multiset against the model, Pop minimal; non-trivial = operations executed", maxN, len(patterns), len(drains))
	c.Bound("max_elements", maxN)
	prio := func(pat string, i int, x *uint32) int {
		switch pat {
		case "ascending":
			return i
		case "descending":
			return 100000 - i
		case "constant":
			return 7
		case "alternating":
			return (i % 2) * 50
		}
		*x = *x*1664525 + 1013904223
		return int((*x >> 10) % 1000)
	}
	for n := 1; n <= maxN; n++ {
		if c.Shards > 1 && n%c.Shards != c.Shard {
			continue
		}
		if c.Expired() {
			c.R.Exhaustive = false
			break
		}
		for _, pat := range patterns {
			for _, dr := range drains {
				for _, maxFirst := range []bool{false, true} {
					m := &qmc{api: api, maxFirst: maxFirst, withIdx: true}
					q := m.newQ()
					var model []int
					x := uint32(n)
					var hist []string
					fail := func(msg string) {
						c.Violate(fmt.Sprintf("c20_queue_long:n=%d:%s:%s:max=%v", n, pat, dr, maxFirst), fmt.Sprintf("queue(order max=%v) grown to %d (%s priorities), drain %q, after %d operations (last: %v): %s", maxFirst, n, pat, dr, len(hist), tailStr(hist, 4), msg), nil, msg)
					}
					do := func(o qop) bool {
						hist = append(hist, o.String())
						c.R.Evaluations++
						c.R.Nontrivial++
						if msg := m.step(q, &model, o); msg != "" {
							fail(msg)
							return false
						}
						return true
					}
					ok := true
					grow := func(to int) {
						for i := len(model); ok && i < to; i++ {
							ok = do(qop{"Push", prio(pat, i, &x), 0})
						}
					}
					grow(n)
					refilled := false
					for step := 0; ok && len(model) > 0; step++ {
						sz := len(model)
						switch dr {
						case "pop":
							ok = do(qop{"Pop", 0, 0})
						case "remove-first":
							ok = do(qop{"Remove", 0, 0})
						case "remove-last":
							ok = do(qop{"Remove", sz - 1, 0})
						case "remove-middle":
							ok = do(qop{"Remove", sz / 2, 0})
						case "pop-and-remove-last":
							if step%2 == 0 {
								ok = do(qop{"Pop", 0, 0})
							} else {
								ok = do(qop{"Remove", sz - 1, 0})
							}
						case "pop-refill-half-pop":
							ok = do(qop{"Pop", 0, 0})
							if ok && !refilled && len(model) <= n/2 {
								refilled = true
								grow(n)
							}
						case "fix-then-pop":
							ok = do(qop{"Fix", sz / 2, prio("lcg", step, &x)})
							if ok {
								ok = do(qop{"Pop", 0, 0})
							}
						}
					}
				}
			}
		}
	}
}

func tailStr(h []string, n int) []string {
	if len(h) > n {
		return h[len(h)-n:]
	}
	return h
}
