package vmodel

import (
	"fmt"
	"sort"

	"verifh/vrep"
)

// QueueAPI adapts the real priority queue (white-box: Array exposes the heap
// array so the search can key states on it and check positions).
type QueueAPI struct {
	New    func(less func(x, y interface{}) bool, setIndex func(x interface{}, idx int)) interface{}
	Len    func(q interface{}) int
	Push   func(q interface{}, x interface{})
	Min    func(q interface{}) interface{}
	Pop    func(q interface{}) interface{}
	Fix    func(q interface{}, i int)
	Remove func(q interface{}, i int)
	Array  func(q interface{}) []interface{}
}

// Item is the element type the search pushes.
type Item struct {
	Prio int
	ID   int
	Idx  int // maintained through setIndex
}

type qop struct {
	kind string
	a, b int
}

func (o qop) String() string {
	switch o.kind {
	case "Push":
		return fmt.Sprintf("Push(p%d)", o.a)
	case "Fix":
		return fmt.Sprintf("a[%d].prio=%d;Fix(%d)", o.a, o.b, o.a)
	case "Remove":
		return fmt.Sprintf("Remove(%d)", o.a)
	}
	return o.kind
}

type qmc struct {
	api      *QueueAPI
	prios    int
	maxSize  int
	maxFirst bool
	withIdx  bool
	nextID   int
}

func (m *qmc) less(x, y interface{}) bool {
	if m.maxFirst {
		return x.(*Item).Prio > y.(*Item).Prio
	}
	return x.(*Item).Prio < y.(*Item).Prio
}

func (m *qmc) ops() []qop {
	var o []qop
	for p := 1; p <= m.prios; p++ {
		o = append(o, qop{"Push", p, 0})
	}
	o = append(o, qop{"Pop", 0, 0}, qop{"Min", 0, 0})
	for i := 0; i < m.maxSize; i++ {
		for p := 1; p <= m.prios; p++ {
			o = append(o, qop{"Fix", i, p})
		}
		o = append(o, qop{"Remove", i, 0})
	}
	return o
}

func (m *qmc) newQ() interface{} {
	var si func(x interface{}, idx int)
	if m.withIdx {
		si = func(x interface{}, idx int) { x.(*Item).Idx = idx }
	}
	return m.api.New(m.less, si)
}

func key(arr []interface{}) string {
	b := make([]byte, len(arr))
	for i, x := range arr {
		b[i] = byte('0' + x.(*Item).Prio)
	}
	return string(b)
}

// enabled reports whether op applies in a state with n elements.
func (m *qmc) enabled(o qop, n int) bool {
	switch o.kind {
	case "Push":
		return n < m.maxSize
	case "Pop", "Min":
		return n > 0
	default:
		return o.a < n
	}
}

// step applies op to the real queue and the model multiset, checking the
// invariants; model is the sorted multiset of priorities.
func (m *qmc) step(q interface{}, model *[]int, o qop) string {
	a := m.api
	best := func() int {
		if m.maxFirst {
			return (*model)[len(*model)-1]
		}
		return (*model)[0]
	}
	del := func(p int) bool {
		for i, x := range *model {
			if x == p {
				*model = append((*model)[:i:i], (*model)[i+1:]...)
				return true
			}
		}
		return false
	}
	switch o.kind {
	case "Push":
		m.nextID++
		a.Push(q, &Item{Prio: o.a, ID: m.nextID, Idx: -7})
		*model = append(*model, o.a)
		sort.Ints(*model)
	case "Min":
		x := a.Min(q).(*Item)
		if x.Prio != best() {
			return fmt.Sprintf("Min() has priority %d, minimal under the comparator is %d", x.Prio, best())
		}
	case "Pop":
		want := best()
		x := a.Pop(q).(*Item)
		if x.Prio != want {
			return fmt.Sprintf("Pop() returned priority %d, minimal under the comparator is %d", x.Prio, want)
		}
		del(x.Prio)
	case "Fix":
		it := a.Array(q)[o.a].(*Item)
		del(it.Prio)
		it.Prio = o.b
		*model = append(*model, o.b)
		sort.Ints(*model)
		a.Fix(q, o.a)
	case "Remove":
		it := a.Array(q)[o.a].(*Item)
		a.Remove(q, o.a)
		if !del(it.Prio) {
			return "removed element not in model"
		}
		for _, x := range a.Array(q) {
			if x.(*Item) == it {
				return fmt.Sprintf("Remove(%d) left the element in the queue", o.a)
			}
		}
	}
	arr := a.Array(q)
	if a.Len(q) != len(*model) || len(arr) != len(*model) {
		return fmt.Sprintf("Len()=%d, model multiset has %d elements", a.Len(q), len(*model))
	}
	got := make([]int, len(arr))
	ids := map[int]bool{}
	for i, x := range arr {
		it := x.(*Item)
		got[i] = it.Prio
		if ids[it.ID] {
			return fmt.Sprintf("element id %d is in the queue twice", it.ID)
		}
		ids[it.ID] = true
		if m.withIdx && it.Idx != i {
			return fmt.Sprintf("element at position %d was told index %d by setIndex", i, it.Idx)
		}
		if i > 0 && m.less(arr[i], arr[(i-1)/2]) {
			return fmt.Sprintf("heap order broken between position %d and its parent", i)
		}
	}
	sort.Ints(got)
	for i := range got {
		if got[i] != (*model)[i] {
			return fmt.Sprintf("multiset not conserved: queue holds %v, model %v", got, *model)
		}
	}
	return ""
}

// CheckQueue is the explicit-state search over exact heap arrays.
func CheckQueue(c *vrep.Ctx, api *QueueAPI) {
	m := &qmc{api: api, prios: c.ParamInt("prios", c.Pick(4, 5)), maxSize: c.ParamInt("size", c.Pick(7, 8)), maxFirst: c.Param("order", "min") == "max", withIdx: c.Param("setindex", "yes") == "yes"}
	maxDepth := c.ParamInt("depth", c.Pick(14, 18))
	ops := m.ops()
	c.R.Rule = "explicit-state BFS on the real pq.Queue: a state is the exact heap array of priorities (elements of equal priority are interchangeable), a transition is one real call of Push/Pop/Min/Fix(after a priority change)/Remove with every argument; after every transition: heap order, Len, setIndex-reported position of every element, conservation of the multiset against a sorted-slice model, Pop/Min minimal under the comparator; non-trivial = distinct (state, operation) pairs"
	c.Bound("priorities", m.prios)
	c.Bound("max_size", m.maxSize)
	c.Bound("max_depth", maxDepth)
	c.Assume("queue state abstraction: two queues whose heap arrays carry the same priority sequence have the same futures (element identity is only used to verify setIndex)")

	rebuild := func(path []int) (interface{}, []int, string) {
		q := m.newQ()
		var model []int
		for _, oi := range path {
			if msg := m.step(q, &model, ops[oi]); msg != "" {
				return q, model, msg
			}
		}
		return q, model, ""
	}
	if c.Replay != nil {
		q := m.newQ()
		var model []int
		for stepi, oi := range c.Replay.Choices {
			if !m.enabled(ops[oi], api.Len(q)) {
				panic("replay: operation not enabled")
			}
			if msg := m.step(q, &model, ops[oi]); msg != "" {
				c.Violate(c.Replay.Key, fmt.Sprintf("step %d %v: %s", stepi, ops[oi], msg), nil, msg)
				return
			}
		}
		return
	}
	seen := map[string][]int{"": nil}
	frontier := []string{""}
	depth := 0
	for len(frontier) > 0 && depth < maxDepth {
		var next []string
		for _, st := range frontier {
			path := seen[st]
			for oi, op := range ops {
				if !m.enabled(op, len(st)) {
					continue
				}
				q, model, msg := rebuild(path)
				if msg != "" {
					panic("prefix failed on rebuild: " + msg)
				}
				if key(api.Array(q)) != st {
					panic("rebuild reached a different state")
				}
				c.R.Transitions++
				c.Eval()
				msg = m.step(q, &model, op)
				full := append(append([]int(nil), path...), oi)
				if msg != "" {
					var names []string
					for _, pi := range full {
						names = append(names, ops[pi].String())
					}
					c.Violate("pq:"+op.kind+":"+msg, fmt.Sprintf("queue(order=%s) after %v: %s", c.Param("order", "min"), names, msg), nil, msg)
					c.R.Violations[len(c.R.Violations)-1].Replay.Choices = full
					continue
				}
				c.R.Validated++
				c.Nontrivial(st + "|" + op.String())
				ns := key(api.Array(q))
				c.Outcome(ns)
				if len(c.R.Samples) < 3 && len(path) >= 3 {
					var names []string
					for _, pi := range full {
						names = append(names, ops[pi].String())
					}
					c.Sample(map[string]interface{}{"ops": names, "heap_array_after": ns})
				}
				if _, ok := seen[ns]; !ok {
					seen[ns] = full
					next = append(next, ns)
				}
			}
		}
		frontier = next
		depth++
	}
	c.R.States = int64(len(seen))
	c.Bound("depth_reached", depth)
	c.Bound("fixpoint", len(frontier) == 0)
}
