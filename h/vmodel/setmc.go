// Package vmodel holds the explicit-state searches that run real container
// objects against boring reference models (C20).
package vmodel

import (
	"fmt"
	"sort"
	"strings"

	"verifh/vrep"
)

// SetAPI adapts a concrete set type S with element type E (StringSet/IntSet).
type SetAPI[S any, E comparable] struct {
	Name       string
	Universe   []E // small universe used for register contents
	Fresh      E   // an element outside Universe, used by the aliasing probe
	Nil        S
	New        func(...E) S
	Copy       func(S) S
	Insert     func(S, ...E)
	Delete     func(S, ...E)
	Intersect  func(S, S) S
	Disjoint   func(S, S) bool
	Difference func(S, S) S
	Unique     func(S, S) S
	Equal      func(S, S) bool
	Union      func(S, S) S
	Contains   func(S, E) bool
	Len        func(S) int
	Empty      func(S) bool
	Elements   func(S) []E
	Sorted     func(S) []E
	String     func(S) string
	Less       func(a, b E) bool
	Quote      func(E) string
}

const nregs = 3

type setOp struct {
	kind    string
	i, j, k int // registers; j == -1 means nil argument
	elems   []int
}

func (o setOp) String() string {
	switch o.kind {
	case "Insert", "Delete":
		return fmt.Sprintf("r%d.%s(%v)", o.i, o.kind, o.elems)
	case "Copy":
		return fmt.Sprintf("r%d = r%d.Copy()", o.k, o.i)
	case "Union", "Intersect", "Difference", "Unique":
		a := fmt.Sprintf("r%d", o.j)
		if o.j < 0 {
			a = "nil"
		}
		return fmt.Sprintf("r%d = r%d.%s(%s)", o.k, o.i, o.kind, a)
	case "New":
		return fmt.Sprintf("r%d = New(%v)", o.k, o.elems)
	}
	return o.kind
}

type mstate [nregs]uint32 // bitmask over universe per register

func setOps(u int, maxList int) []setOp {
	var lists [][]int
	var rec func(cur []int)
	rec = func(cur []int) {
		lists = append(lists, append([]int(nil), cur...))
		if len(cur) == maxList {
			return
		}
		for e := 0; e < u; e++ {
			rec(append(cur, e))
		}
	}
	rec(nil)
	var ops []setOp
	for i := 0; i < nregs; i++ {
		for _, l := range lists {
			ops = append(ops, setOp{kind: "Insert", i: i, elems: l})
			ops = append(ops, setOp{kind: "Delete", i: i, elems: l})
		}
	}
	for k := 0; k < nregs; k++ {
		for _, l := range lists {
			ops = append(ops, setOp{kind: "New", k: k, elems: l})
		}
		for i := 0; i < nregs; i++ {
			ops = append(ops, setOp{kind: "Copy", i: i, k: k})
			for _, kind := range []string{"Union", "Intersect", "Difference", "Unique"} {
				for j := -1; j < nregs; j++ {
					ops = append(ops, setOp{kind: kind, i: i, j: j, k: k})
				}
			}
		}
	}
	return ops
}

func mask(elems []int) uint32 {
	var m uint32
	for _, e := range elems {
		m |= 1 << uint(e)
	}
	return m
}

func (o setOp) applyModel(s mstate) mstate {
	arg := uint32(0)
	if o.j >= 0 {
		arg = s[o.j]
	}
	switch o.kind {
	case "Insert":
		s[o.i] |= mask(o.elems)
	case "Delete":
		s[o.i] &^= mask(o.elems)
	case "New":
		s[o.k] = mask(o.elems)
	case "Copy":
		s[o.k] = s[o.i]
	case "Union":
		s[o.k] = s[o.i] | arg
	case "Intersect":
		s[o.k] = s[o.i] & arg // nil argument: empty set
	case "Difference":
		s[o.k] = s[o.i] &^ arg // nil argument: copy of receiver
	case "Unique":
		s[o.k] = s[o.i] ^ arg // nil argument: copy of receiver
	}
	return s
}

type setMC[S any, E comparable] struct {
	api *SetAPI[S, E]
	c   *vrep.Ctx
	ops []setOp
}

func (m *setMC[S, E]) elems(idx []int) []E {
	out := make([]E, len(idx))
	for i, e := range idx {
		out[i] = m.api.Universe[e]
	}
	return out
}

func (m *setMC[S, E]) applyReal(o setOp, r *[nregs]S) {
	a := m.api
	arg := a.Nil
	if o.j >= 0 {
		arg = r[o.j]
	}
	switch o.kind {
	case "Insert":
		a.Insert(r[o.i], m.elems(o.elems)...)
	case "Delete":
		a.Delete(r[o.i], m.elems(o.elems)...)
	case "New":
		r[o.k] = a.New(m.elems(o.elems)...)
	case "Copy":
		r[o.k] = a.Copy(r[o.i])
	case "Union":
		r[o.k] = a.Union(r[o.i], arg)
	case "Intersect":
		r[o.k] = a.Intersect(r[o.i], arg)
	case "Difference":
		r[o.k] = a.Difference(r[o.i], arg)
	case "Unique":
		r[o.k] = a.Unique(r[o.i], arg)
	}
}

func (m *setMC[S, E]) maskOf(s S) (uint32, string) {
	a := m.api
	var mk uint32
	el := a.Elements(s)
	seen := map[E]bool{}
	for _, e := range el {
		if seen[e] {
			return 0, fmt.Sprintf("Elements() lists %v twice", e)
		}
		seen[e] = true
		found := false
		for i, u := range a.Universe {
			if u == e {
				mk |= 1 << uint(i)
				found = true
			}
		}
		if !found {
			return 0, fmt.Sprintf("Elements() contains %v which was never inserted", e)
		}
	}
	return mk, ""
}

// observe compares every observer of the real registers with the model.
func (m *setMC[S, E]) observe(r *[nregs]S, s mstate) string {
	a := m.api
	for i := 0; i < nregs; i++ {
		mk, msg := m.maskOf(r[i])
		if msg != "" {
			return fmt.Sprintf("r%d: %s", i, msg)
		}
		if mk != s[i] {
			return fmt.Sprintf("r%d holds %s, model says %03b", i, a.String(r[i]), s[i])
		}
		n := 0
		for e := range a.Universe {
			in := s[i]&(1<<uint(e)) != 0
			if in {
				n++
			}
			if a.Contains(r[i], a.Universe[e]) != in {
				return fmt.Sprintf("r%d.Contains(%v) != %v", i, a.Universe[e], in)
			}
		}
		if a.Contains(r[i], a.Fresh) {
			return fmt.Sprintf("r%d contains the never-inserted element", i)
		}
		if a.Len(r[i]) != n {
			return fmt.Sprintf("r%d.Len()=%d, model %d", i, a.Len(r[i]), n)
		}
		if a.Empty(r[i]) != (n == 0) {
			return fmt.Sprintf("r%d.Empty()=%v, model size %d", i, a.Empty(r[i]), n)
		}
		// Sorted() must be exactly the model's elements in order (no duplicate, nothing missing)
		so := a.Sorted(r[i])
		var wantSorted []E
		for e := range a.Universe {
			if s[i]&(1<<uint(e)) != 0 {
				wantSorted = append(wantSorted, a.Universe[e])
			}
		}
		sort.Slice(wantSorted, func(x, y int) bool { return a.Less(wantSorted[x], wantSorted[y]) })
		if len(so) != len(wantSorted) {
			return fmt.Sprintf("r%d.Sorted()=%v, model %v", i, so, wantSorted)
		}
		for k := range so {
			if so[k] != wantSorted[k] {
				return fmt.Sprintf("r%d.Sorted()=%v, model %v", i, so, wantSorted)
			}
		}
		// the caller may do what it likes with the returned slices
		for k := range so {
			so[k] = a.Fresh
		}
		if again := a.Sorted(r[i]); len(again) != len(wantSorted) || (len(again) > 0 && again[0] != wantSorted[0]) {
			return fmt.Sprintf("r%d.Sorted() hands out its internal slice: overwriting the result changed the next answer to %v", i, again)
		}
		if st := a.String(r[i]); strings.Count(st, ",") != maxInt(0, n-1) {
			return fmt.Sprintf("r%d.String()=%s does not list %d elements", i, st, n)
		}
		for j := 0; j < nregs; j++ {
			if a.Equal(r[i], r[j]) != (s[i] == s[j]) {
				return fmt.Sprintf("r%d.Equal(r%d)=%v, model %03b vs %03b", i, j, a.Equal(r[i], r[j]), s[i], s[j])
			}
			if a.Disjoint(r[i], r[j]) != (s[i]&s[j] == 0) {
				return fmt.Sprintf("r%d.Disjoint(r%d)=%v, model %03b vs %03b", i, j, a.Disjoint(r[i], r[j]), s[i], s[j])
			}
		}
		if a.Equal(r[i], a.Nil) {
			return fmt.Sprintf("r%d.Equal(nil) is true for a non-nil set", i)
		}
		if !a.Disjoint(r[i], a.Nil) {
			return fmt.Sprintf("r%d.Disjoint(nil) is false", i)
		}
	}
	return ""
}

// aliasProbe mutates register k (the one an operation just produced) and
// checks that no other register observes the mutation, then undoes it.
func (m *setMC[S, E]) aliasProbe(r *[nregs]S, s mstate, k int) string {
	a := m.api
	// registers that legitimately are the same object as k: none, every
	// operation that assigns a register is specified to return a NEW set.
	a.Insert(r[k], a.Fresh)
	for i := 0; i < nregs; i++ {
		if i != k && a.Contains(r[i], a.Fresh) {
			a.Delete(r[k], a.Fresh)
			return fmt.Sprintf("r%d is aliased to r%d: inserting into the result changed the operand", k, i)
		}
	}
	a.Delete(r[k], a.Fresh)
	// and removal of everything from k must not empty others
	keep := a.Elements(r[k])
	a.Delete(r[k], keep...)
	for i := 0; i < nregs; i++ {
		if i == k {
			continue
		}
		if mk, _ := m.maskOf(r[i]); mk != s[i] {
			a.Insert(r[k], keep...)
			return fmt.Sprintf("deleting from result r%d changed r%d", k, i)
		}
	}
	a.Insert(r[k], keep...)
	return ""
}

func (m *setMC[S, E]) fresh() *[nregs]S {
	var r [nregs]S
	for i := range r {
		r[i] = m.api.New()
	}
	return &r
}

// CheckSets is the explicit-state search: BFS over model states, every
// transition executed on real objects rebuilt by replaying the shortest path.
func CheckSets[S any, E comparable](c *vrep.Ctx, api *SetAPI[S, E]) {
	maxList := c.Pick(2, 2)
	observeOnPath := c.Param("observe", "path") == "path"
	c.Bound("observers_called_after_every_step_of_the_history", observeOnPath)
	m := &setMC[S, E]{api: api, c: c, ops: setOps(len(api.Universe), maxList)}
	c.R.Rule = "explicit-state BFS over 3 set registers on a small universe; a state is the triple of register contents, a transition is one real method call (Insert/Delete with every element list up to length 2, New, Copy, Union/Intersect/Difference/Unique with every operand pair incl. nil); after every transition all observers (Elements, Sorted, String, Len, Empty, Contains, Equal, Disjoint) are compared with a bitmask model and the result register is mutated to detect aliasing; non-trivial = distinct (state, operation) pairs whose operation changed or produced a register"
	c.Bound("universe", len(api.Universe))
	c.Bound("registers", nregs)
	c.Bound("max_element_list", maxList)
	c.Assume("register identity: equal contents reached by different paths have the same futures because a StringSet/IntSet is only a map; hidden sharing between registers is probed destructively after every transition")

	if c.Replay != nil {
		r := m.fresh()
		var s mstate
		for step, oi := range c.Replay.Choices {
			if !observeOnPath && step < len(c.Replay.Choices)-1 {
				m.applyReal(m.ops[oi], r)
				s = m.ops[oi].applyModel(s)
				continue
			}
			if msg := m.step(r, &s, m.ops[oi]); msg != "" {
				c.Violate(c.Replay.Key, fmt.Sprintf("step %d %v: %s", step, m.ops[oi], msg), nil, msg)
				return
			}
		}
		return
	}

	type node struct {
		path []int
	}
	seen := map[mstate]node{{}: {}}
	frontier := []mstate{{}}
	depth := 0
	for len(frontier) > 0 {
		var next []mstate
		for _, st := range frontier {
			path := seen[st].path
			for oi, op := range m.ops {
				if c.Shards > 1 && (oi%c.Shards) != c.Shard {
					// successor bookkeeping still needs the model transition
					ns := op.applyModel(st)
					if _, ok := seen[ns]; !ok {
						seen[ns] = node{append(append([]int(nil), path...), oi)}
						next = append(next, ns)
					}
					continue
				}
				// rebuild the real objects along the shortest path (live objects cannot be cloned)
				r := m.fresh()
				s := mstate{}
				bad := false
				prefixFails := false
				for _, pi := range path {
					m.applyReal(m.ops[pi], r)
					s = m.ops[pi].applyModel(s)
					if observeOnPath {
						// observers are calls too: a history in which Sorted/Elements/String/... ran
						// between the mutations is a different history from one in which they did not
						if msg := m.observe(r, s); msg != "" {
							prefixFails = true // reported by the shard that owns that transition
							break
						}
					}
				}
				if prefixFails {
					continue
				}
				if s != st {
					panic("model replay mismatch")
				}
				_ = prefixFails
				c.R.Transitions++
				c.Eval()
				if msg := m.step(r, &s, op); msg != "" {
					bad = true
					full := append(append([]int(nil), path...), oi)
					var names []string
					for _, pi := range full {
						names = append(names, m.ops[pi].String())
					}
					key := api.Name + ":" + op.kind + ":" + msg
					c.Violate(key, fmt.Sprintf("%s after %v: %s", api.Name, names, msg), nil, msg)
					c.R.Violations[len(c.R.Violations)-1].Replay.Choices = full
				}
				if s != st || op.kind == "Copy" || op.kind == "New" {
					c.Nontrivial(fmt.Sprintf("%v|%d", st, oi))
				}
				c.Outcome(fmt.Sprintf("%v", s))
				if len(c.R.Samples) < 3 && len(path) >= 2 {
					var names []string
					for _, pi := range path {
						names = append(names, m.ops[pi].String())
					}
					c.Sample(map[string]interface{}{"path": names, "then": op.String(), "state_after": fmt.Sprintf("%03b", s)})
				}
				if !bad {
					c.R.Validated++
				} else {
					continue // do not build longer histories on a transition that already failed
				}
				if _, ok := seen[s]; !ok {
					seen[s] = node{append(append([]int(nil), path...), oi)}
					next = append(next, s)
				}
			}
		}
		frontier = next
		depth++
	}
	if c.Shard == 0 {
		c.R.States = int64(len(seen)) // every shard walks the same state set; count it once
	}
	c.Bound("bfs_depth_to_fixpoint", depth)
}

// step applies op to real and model and checks everything.
func (m *setMC[S, E]) step(r *[nregs]S, s *mstate, op setOp) string {
	before := *s
	var operands [nregs]S = *r
	m.applyReal(op, r)
	*s = op.applyModel(*s)
	if msg := m.observe(r, *s); msg != "" {
		return msg
	}
	switch op.kind {
	case "Copy", "Union", "Intersect", "Difference", "Unique", "New":
		// operands untouched (k may equal i or j: the OLD object must be unchanged too)
		for i := 0; i < nregs; i++ {
			mk, _ := m.maskOf(operands[i])
			if mk != before[i] {
				return fmt.Sprintf("operand r%d was modified by %v", i, op)
			}
		}
		if msg := m.aliasProbe(r, *s, op.k); msg != "" {
			return msg
		}
		// the new object must also be distinct from the OLD operand objects
		m.api.Insert(r[op.k], m.api.Fresh)
		for i := 0; i < nregs; i++ {
			if m.api.Contains(operands[i], m.api.Fresh) {
				m.api.Delete(r[op.k], m.api.Fresh)
				return fmt.Sprintf("result of %v aliases its operand (old r%d)", op, i)
			}
		}
		m.api.Delete(r[op.k], m.api.Fresh)
	}
	return ""
}

func maxInt(a, b int) int {
	if a > b {
		return a
	}
	return b
}

// CheckSetsLong: the same operations on LARGE sets from a structured family (the register
// search only knows a universe of 3-4 elements): for EVERY n up to a bound, A = {0..n-1} built
// in three ways, B = a shifted range overlapping A by half, C = the even numbers below 2n, the
// empty set and nil; every binary operation on every ordered pair, every observer, deletion of
// every second element, Copy independence. Gen maps an index to an element, in Less order.
func CheckSetsLong[S any, E comparable](c *vrep.Ctx, api *SetAPI[S, E], gen func(i int) E) {
	maxN := c.ParamInt("maxn", c.Pick(280, 600))
	c.R.Rule = fmt.Sprintf("large %ss: for EVERY n in 1..%d: A = {0..n-1} (inserted ascending one by one / descending one by one / in one call), B = {n/2..n/2+n-1}, C = even numbers below 2n, empty, nil; Union, Intersect, Difference, Unique, Disjoint, Equal on every ordered pair, Len/Empty/Contains(every candidate)/Sorted/Elements on every set, operands unchanged by every operation, Delete of every second element, Copy independent of its source, Delete of all but the last element in one call followed by n insert/delete rounds and a two-element Delete on the same object; oracle: map[int]bool model; non-trivial = comparisons made", api.Name, maxN)
	c.Bound("max_elements", maxN)
	type named struct {
		name  string
		set   S
		model map[int]bool
	}
	for n := 1; n <= maxN; n++ {
		if c.Shards > 1 && n%c.Shards != c.Shard {
			continue
		}
		if c.Expired() {
			c.R.Exhaustive = false
			break
		}
		fail := func(what string) {
			c.Violate(fmt.Sprintf("c20_long:%s:n=%d:%s", api.Name, n, strings.SplitN(what, ":", 2)[0]), fmt.Sprintf("%s, n=%d: %s", api.Name, n, what), nil, what)
		}
		mk := func(idx []int, mode int) S {
			var s S
			switch mode {
			case 0:
				s = api.New()
				for _, i := range idx {
					api.Insert(s, gen(i))
				}
			case 1:
				s = api.New()
				for k := len(idx) - 1; k >= 0; k-- {
					api.Insert(s, gen(idx[k]))
				}
			default:
				es := make([]E, len(idx))
				for k, i := range idx {
					es[k] = gen(i)
				}
				s = api.New(es...)
			}
			return s
		}
		rng := func(a, b, step int) ([]int, map[int]bool) {
			var idx []int
			m := map[int]bool{}
			for i := a; i < b; i += step {
				idx = append(idx, i)
				m[i] = true
			}
			return idx, m
		}
		check := func(label string, s S, m map[int]bool) bool {
			c.R.Evaluations++
			c.R.Nontrivial++
			if api.Len(s) != len(m) {
				fail(fmt.Sprintf("%s: Len()=%d, model has %d", label, api.Len(s), len(m)))
				return false
			}
			if api.Empty(s) != (len(m) == 0) {
				fail(fmt.Sprintf("%s: Empty()=%v with %d elements", label, api.Empty(s), len(m)))
				return false
			}
			for i := -1; i <= 2*n+1; i++ {
				if i >= 0 && api.Contains(s, gen(i)) != m[i] {
					fail(fmt.Sprintf("%s: Contains(%s)=%v, model %v", label, api.Quote(gen(i)), !m[i], m[i]))
					return false
				}
			}
			var want []int
			for i := range m {
				want = append(want, i)
			}
			sort.Ints(want)
			got := api.Sorted(s)
			if len(got) != len(want) {
				fail(fmt.Sprintf("%s: Sorted() has %d elements, model %d", label, len(got), len(want)))
				return false
			}
			for k := range want {
				if got[k] != gen(want[k]) {
					fail(fmt.Sprintf("%s: Sorted()[%d]=%s, model %s", label, k, api.Quote(got[k]), api.Quote(gen(want[k]))))
					return false
				}
			}
			if el := api.Elements(s); len(el) != len(want) {
				fail(fmt.Sprintf("%s: Elements() has %d elements, model %d", label, len(el), len(want)))
				return false
			}
			return true
		}
		ia, ma := rng(0, n, 1)
		ib, mb := rng(n/2, n/2+n, 1)
		ic, mc := rng(0, 2*n, 2)
		for mode := 0; mode < 3; mode++ {
			sets := []named{{"A", mk(ia, mode), ma}, {"B", mk(ib, (mode+1)%3), mb}, {"C", mk(ic, (mode+2)%3), mc}, {"empty", api.New(), map[int]bool{}}, {"nil", api.Nil, map[int]bool{}}}
			ok := true
			for _, s := range sets[:4] {
				ok = ok && check(s.name, s.set, s.model)
			}
			for _, x := range sets[:4] {
				for _, y := range sets {
					if !ok {
						break
					}
					un, in, di, uq := map[int]bool{}, map[int]bool{}, map[int]bool{}, map[int]bool{}
					for i := range x.model {
						un[i] = true
						if y.model[i] {
							in[i] = true
						} else {
							di[i] = true
							uq[i] = true
						}
					}
					for i := range y.model {
						un[i] = true
						if !x.model[i] {
							uq[i] = true
						}
					}
					ok = ok && check(x.name+".Union("+y.name+")", api.Union(x.set, y.set), un)
					ok = ok && check(x.name+".Intersect("+y.name+")", api.Intersect(x.set, y.set), in)
					ok = ok && check(x.name+".Difference("+y.name+")", api.Difference(x.set, y.set), di)
					ok = ok && check(x.name+".Unique("+y.name+")", api.Unique(x.set, y.set), uq)
					if ok && api.Disjoint(x.set, y.set) != (len(in) == 0) {
						fail(fmt.Sprintf("%s.Disjoint(%s)=%v, the model intersection has %d elements", x.name, y.name, len(in) != 0, len(in)))
						ok = false
					}
					eq := len(x.model) == len(y.model) && len(in) == len(x.model)
					if y.name == "nil" {
						eq = false // Equal(nil) is false for a non-nil receiver by definition of the implementation's documented behaviour; not compared
					} else if ok && api.Equal(x.set, y.set) != eq {
						fail(fmt.Sprintf("%s.Equal(%s)=%v, model %v", x.name, y.name, !eq, eq))
						ok = false
					}
					// operands unchanged
					ok = ok && check(x.name+" after operations with "+y.name, x.set, x.model)
					if y.name != "nil" {
						ok = ok && check(y.name+" after operations with "+x.name, y.set, y.model)
					}
				}
			}
			if !ok {
				continue
			}
			// Copy independence and Delete of every second element
			a := sets[0]
			cp := api.Copy(a.set)
			md := map[int]bool{}
			var del []E
			for i := 0; i < n; i++ {
				if i%2 == 0 {
					del = append(del, gen(i))
				} else {
					md[i] = true
				}
			}
			api.Delete(cp, del...)
			if check("Copy(A) after Delete of every second element", cp, md) {
				check("A after its copy was modified", a.set, a.model)
			}
			// a long life on ONE object: all but the last element deleted in one call; then n rounds
			// of insert-one / delete-one; then three inserted and two of them deleted in one call
			// (bookkeeping that depends on how many deletions an object has seen)
			lp := api.Copy(a.set)
			var all []E
			for i := 0; i+1 < n; i++ {
				all = append(all, gen(i))
			}
			api.Delete(lp, all...)
			if !check("Copy(A) after Delete of all but the last element in one call", lp, map[int]bool{n - 1: true}) {
				continue
			}
			for i := 0; i < n; i++ {
				api.Insert(lp, gen(0))
				api.Delete(lp, gen(0))
			}
			api.Insert(lp, gen(1), gen(2), gen(3))
			api.Delete(lp, gen(1), gen(2))
			lm := map[int]bool{n - 1: true}
			delete(lm, 0)
			lm[3] = true
			delete(lm, 1)
			delete(lm, 2)
			check("the same set after n insert/delete rounds, Insert(1,2,3), Delete(1,2)", lp, lm)
		}
	}
}

// CheckSetHistories complements the BFS: the BFS identifies a state with the CONTENTS of the
// registers and extends only the shortest path to it, and it probes every new object
// destructively - so hidden state that depends on how the contents came about (objects that
// share storage until one of them is written) is dissolved or never reached. Here every
// SEQUENCE of up to depth operations from a reduced alphabet (Copy between every pair of
// registers, Insert/Delete of one element, the binary operations with a nil argument - which
// return copies - and Union of two registers) is run from a fixed non-empty start on fresh
// objects, without probes, and all observers are compared with the model after every step.
func CheckSetHistories[S any, E comparable](c *vrep.Ctx, api *SetAPI[S, E]) {
	depth := c.Pick(4, 5)
	m := &setMC[S, E]{api: api, c: c}
	var ops []setOp
	for i := 0; i < nregs; i++ {
		for e := 0; e < 2 && e < len(api.Universe); e++ {
			ops = append(ops, setOp{kind: "Insert", i: i, elems: []int{e}}, setOp{kind: "Delete", i: i, elems: []int{e}})
		}
		for k := 0; k < nregs; k++ {
			if k != i {
				ops = append(ops, setOp{kind: "Copy", i: i, k: k})
				ops = append(ops, setOp{kind: "Union", i: i, j: -1, k: k}, setOp{kind: "Difference", i: i, j: -1, k: k})
			}
		}
		ops = append(ops, setOp{kind: "Union", i: i, j: (i + 1) % nregs, k: i})
	}
	m.ops = ops
	c.R.Rule = fmt.Sprintf("ALL sequences of 1..%d operations from %d (Copy between every pair of the 3 registers, Insert/Delete of one of two elements, Union(nil)/Difference(nil) into another register, Union with the next register in place) from the start r0={0,1}, r1={1}, r2={} on fresh objects, no destructive probes; after every step all observers of all registers are compared with the bitmask model; non-trivial = all sequences", depth, len(ops))
	c.Bound("depth", depth)
	c.Bound("operations", len(ops))
	start := func() (*[nregs]S, mstate) {
		r := m.fresh()
		api.Insert(r[0], api.Universe[0], api.Universe[1])
		api.Insert(r[1], api.Universe[1])
		return r, mstate{3, 2, 0}
	}
	seq := make([]int, 0, depth)
	var rec func()
	n := int64(0)
	reported := map[string]bool{}
	rec = func() {
		if len(seq) > 0 {
			n++
			if c.Shards > 1 && int(seq[0])%c.Shards != c.Shard {
				return
			}
			r, s := start()
			msg := ""
			for _, oi := range seq {
				m.applyReal(ops[oi], r)
				s = ops[oi].applyModel(s)
			}
			// the prefixes were observed when they were the whole sequence: observe the end only
			msg = m.observe(r, s)
			c.Eval()
			c.R.Nontrivial++
			c.R.Transitions++
			if msg != "" {
				var names []string
				for _, oi := range seq {
					names = append(names, ops[oi].String())
				}
				key := api.Name + ":history:" + msg
				if !reported[key] {
					reported[key] = true
					c.Violate(key, fmt.Sprintf("%s from r0={0,1} r1={1} r2={} after %v: %s", api.Name, names, msg), nil, msg)
				}
				return // do not extend a failing history
			}
			c.R.Validated++
		}
		if len(seq) == depth {
			return
		}
		for oi := range ops {
			seq = append(seq, oi)
			rec()
			seq = seq[:len(seq)-1]
		}
	}
	rec()
	c.Sample(map[string]interface{}{"sequences": n})
}
