// vinstr produces instrumented copies of repository source files from the
// CURRENT working tree of /repo (type-aware, go/packages): sync -> vsync
// shims, go statements -> vsync.Go, channel syntax -> vsync.Chan, range over
// maps -> vsync.MapKeys (map-order seam), yield points, access events.
// It prints "original<TAB>instrumented" lines for the overlay. Any construct it
// does not understand is a hard error (INSTRUMENTER-UNSUPPORTED, exit 2).
package main

import (
	"bytes"
	"flag"
	"fmt"
	"go/ast"
	"go/format"
	"go/parser"
	"go/printer"
	"go/token"
	"go/types"
	"os"
	"path/filepath"
	"strconv"
	"strings"

	"golang.org/x/tools/go/ast/astutil"
	"golang.org/x/tools/go/packages"
)

type fileOpts struct {
	Sync     bool
	Go       bool
	MapOrder bool
	ChanIn   map[string]bool // function names whose channel operations are rewritten
	ChanAll  bool            // channel operations of every function and every channel type in the file
	// NoElementReads: with Access "*", reads of slice elements get no event (element writes and all
	// field accesses still do): for packages whose inner loops read shared, immutable arrays
	NoElementReads bool
	Yield          string          // "", "coarse", "fine"
	Access         map[string]bool // "Type.field"
	// Deref: watched pointer fields whose method calls are accesses of the pointee
	// (every method is a write except the listed read-only ones).
	Deref map[string]map[string]bool
	// YieldCalls: import-path fragments; a statement that calls into such a package gets a
	// yield point before and after it (shared data handed to a library is exposed to the
	// other threads while the library works on it).
	YieldCalls []string
}

type profile struct {
	Pkg   string
	Files map[string]fileOpts // base name -> opts ("*": every non-test file)
}

const v1 = "github.com/google/licenseclassifier"

var profiles = map[string][]profile{
	"v2globals": {},
	"v2map":     {{Pkg: v1 + "/v2", Files: map[string]fileOpts{"*": {MapOrder: true}}}},
	"v2coarse":  {{Pkg: v1 + "/v2", Files: map[string]fileOpts{"*": {Sync: true, Go: true, ChanAll: true, MapOrder: true, Yield: "coarse", YieldCalls: []string{"sergi/go-diff"}}}}},
	"v2access":  {{Pkg: v1 + "/v2", Files: map[string]fileOpts{"*": {Sync: true, Go: true, ChanAll: true, MapOrder: true, Yield: "coarse", YieldCalls: []string{"sergi/go-diff"}, Access: map[string]bool{"*": true}}}}},
	"v2fine":    {{Pkg: v1 + "/v2", Files: map[string]fileOpts{"*": {Sync: true, Go: true, ChanAll: true, MapOrder: true, Yield: "fine", YieldCalls: []string{"sergi/go-diff"}}}}},
	"v1": {
		{Pkg: v1 + "/stringclassifier", Files: map[string]fileOpts{"classifier.go": {Sync: true, Go: true, ChanAll: true, MapOrder: true,
			Access: map[string]bool{"knownValue.set": true, "Classifier.values": true, "matcher.queue": true, "*": true},
			Deref:  map[string]map[string]bool{"matcher.queue": {"Len": true, "Min": true}}}}},
		{Pkg: v1, Files: map[string]fileOpts{"classifier.go": {Sync: true, Go: true, ChanAll: true, MapOrder: true, Access: map[string]bool{"*": true}}}},
	},
	// v1 plus the searchset package (its sets are shared by all concurrent calls): for a few jobs only,
	// the events in its loops cost time
	"v1deep": {
		{Pkg: v1 + "/stringclassifier", Files: map[string]fileOpts{"classifier.go": {Sync: true, Go: true, ChanAll: true, MapOrder: true,
			Access: map[string]bool{"knownValue.set": true, "Classifier.values": true, "matcher.queue": true, "*": true},
			Deref:  map[string]map[string]bool{"matcher.queue": {"Len": true, "Min": true}}}}},
		{Pkg: v1 + "/stringclassifier/searchset", Files: map[string]fileOpts{"searchset.go": {Sync: true, Go: true, ChanAll: true, NoElementReads: true, Access: map[string]bool{"*": true}}}},
		{Pkg: v1 + "/stringclassifier/searchset/tokenizer", Files: map[string]fileOpts{"tokenizer.go": {Sync: true, Go: true, ChanAll: true, NoElementReads: true, Access: map[string]bool{"*": true}}}},
	},
	"backend": {{Pkg: v1 + "/v2/tools/identify_license/backend", Files: map[string]fileOpts{"backend.go": {Sync: true, Go: true,
		ChanIn: map[string]bool{"ClassifyLicenses": true}, Access: map[string]bool{"ClassifierBackend.results": true, "*": true}}}}},
}

func die(f string, a ...interface{}) {
	fmt.Fprintf(os.Stderr, "INSTRUMENTER-UNSUPPORTED "+f+"\n", a...)
	os.Exit(2)
}

func main() {
	prof := flag.String("profile", "", "profile name")
	out := flag.String("out", "", "output directory")
	flag.Parse()
	ps, ok := profiles[*prof]
	if !ok {
		fmt.Fprintf(os.Stderr, "vinstr: unknown profile %q\n", *prof)
		os.Exit(2)
	}
	for _, p := range ps {
		instrumentPkg(p, *out)
	}
	if *prof == "v2globals" {
		emitGlobals(v1+"/v2", "classifier", *out)
	}
}

// emitGlobals writes a test file listing every package-level variable of the
// package as it is in the current tree, so that the state-hash monitor also
// covers variables a change adds.
func emitGlobals(pkgPath, pkgName, out string) {
	cfg := &packages.Config{Mode: packages.NeedName | packages.NeedFiles | packages.NeedCompiledGoFiles | packages.NeedImports |
		packages.NeedTypes | packages.NeedSyntax | packages.NeedTypesInfo | packages.NeedDeps, Dir: "."}
	pkgs, err := packages.Load(cfg, pkgPath)
	if err != nil || len(pkgs) != 1 || len(pkgs[0].Errors) > 0 {
		die("load %s for globals: %v", pkgPath, err)
	}
	pkg := pkgs[0]
	var buf bytes.Buffer
	buf.WriteString("//go:build verif && go1.21\n\n// Code generated by vinstr; DO NOT EDIT.\n\npackage " + pkgName + "\n\nvar vAllGlobals = map[string]interface{}{\n")
	scope := pkg.Types.Scope()
	for _, name := range scope.Names() {
		v, ok := scope.Lookup(name).(*types.Var)
		if !ok || name == "_" {
			continue
		}
		ts := v.Type().String()
		if strings.Contains(ts, "regexp.") || strings.Contains(ts, "func(") {
			continue
		}
		fmt.Fprintf(&buf, "\t%q: &%s,\n", name, name)
	}
	buf.WriteString("}\n")
	// does the package synchronise at all (locks, atomics, goroutines, channels)? Harnesses that
	// demand "a query leaves the state untouched" only do so for code that does not: a guarded cache
	// is legitimate and is judged by the schedulers and the result comparisons instead.
	uses := false
	for i, f := range pkg.Syntax {
		if strings.HasSuffix(pkg.CompiledGoFiles[i], "_test.go") {
			continue
		}
		for _, imp := range f.Imports {
			if imp.Path.Value == `"sync"` || imp.Path.Value == `"sync/atomic"` {
				uses = true
			}
		}
		ast.Inspect(f, func(n ast.Node) bool {
			switch n.(type) {
			case *ast.ChanType, *ast.GoStmt, *ast.SelectStmt:
				uses = true
			}
			return true
		})
	}
	fmt.Fprintf(&buf, "\nconst vPkgSynchronises = %v\n", uses)
	dst := filepath.Join(out, "globals_"+pkgName+".go")
	if err := os.WriteFile(dst, buf.Bytes(), 0o644); err != nil {
		die("%v", err)
	}
	dir := filepath.Dir(pkg.CompiledGoFiles[0])
	fmt.Printf("%s\t%s\n", filepath.Join(dir, "zz_verif_genglobals_test.go"), dst)
}

func instrumentPkg(p profile, out string) {
	cfg := &packages.Config{Mode: packages.NeedName | packages.NeedFiles | packages.NeedCompiledGoFiles | packages.NeedImports |
		packages.NeedTypes | packages.NeedSyntax | packages.NeedTypesInfo | packages.NeedDeps, Dir: "."}
	pkgs, err := packages.Load(cfg, p.Pkg)
	if err != nil {
		die("load %s: %v", p.Pkg, err)
	}
	if len(pkgs) != 1 {
		die("load %s: %d packages", p.Pkg, len(pkgs))
	}
	pkg := pkgs[0]
	if len(pkg.Errors) > 0 {
		die("load %s: %v", p.Pkg, pkg.Errors[0])
	}
	for i, f := range pkg.Syntax {
		path := pkg.CompiledGoFiles[i]
		base := filepath.Base(path)
		opts, ok := p.Files[base]
		if !ok {
			opts, ok = p.Files["*"]
		}
		if !ok || strings.HasSuffix(base, "_test.go") {
			continue
		}
		in := &instr{pkg: pkg, file: f, opts: opts, base: base}
		in.run()
		f.Comments = nil // synthesized nodes carry no positions; keeping comments would scatter them
		var buf bytes.Buffer
		buf.WriteString("//go:build go1.21\n\n// Code generated by vinstr from " + path + "; DO NOT EDIT.\n\n")
		if err := format.Node(&buf, pkg.Fset, f); err != nil {
			if dbg := os.Getenv("VINSTR_DEBUG"); dbg != "" {
				var b2 bytes.Buffer
				printer.Fprint(&b2, pkg.Fset, f)
				os.WriteFile(dbg, b2.Bytes(), 0o644)
			}
			die("%s: print: %v", path, err)
		}
		dst := filepath.Join(out, strings.ReplaceAll(strings.TrimPrefix(filepath.Dir(path), "/"), "/", "_")+"__"+base)
		if err := os.WriteFile(dst, buf.Bytes(), 0o644); err != nil {
			die("%v", err)
		}
		fmt.Printf("%s\t%s\n", path, dst)
	}
}

type instr struct {
	pkg      *packages.Package
	file     *ast.File
	opts     fileOpts
	base     string
	needV    bool
	needUns  bool
	curFunc  string
	chanVars map[types.Object]bool
	aliases  map[types.Object]aliasInfo
	rangeN   int
}

type aliasInfo struct {
	sel  *ast.SelectorExpr
	name string
}

func (in *instr) site(n ast.Node) *ast.BasicLit {
	pos := in.pkg.Fset.Position(n.Pos())
	return &ast.BasicLit{Kind: token.STRING, Value: strconv.Quote(fmt.Sprintf("%s:%d", in.base, pos.Line))}
}

func (in *instr) vcall(name string, args ...ast.Expr) *ast.CallExpr {
	in.needV = true
	return &ast.CallExpr{Fun: &ast.SelectorExpr{X: ast.NewIdent("vsync"), Sel: ast.NewIdent(name)}, Args: args}
}

func (in *instr) typeOf(e ast.Expr) types.Type {
	if tv, ok := in.pkg.TypesInfo.Types[e]; ok {
		return tv.Type
	}
	if id, ok := e.(*ast.Ident); ok {
		if o := in.pkg.TypesInfo.ObjectOf(id); o != nil {
			return o.Type()
		}
	}
	return nil
}

func (in *instr) isMap(e ast.Expr) bool {
	t := in.typeOf(e)
	if t == nil {
		return false
	}
	_, ok := t.Underlying().(*types.Map)
	return ok
}

// namedChan: if e is (an expression or type name of) a defined type whose underlying type is a
// channel, the element type as it is written in the declaration; nil otherwise.
func (in *instr) namedChan(e ast.Expr) ast.Expr {
	t := in.typeOf(e)
	if t == nil {
		if id, ok := e.(*ast.Ident); ok {
			if obj := in.pkg.Types.Scope().Lookup(id.Name); obj != nil {
				t = obj.Type()
			}
		}
	}
	n, ok := t.(*types.Named)
	if !ok || n.Obj().Pkg() != in.pkg.Types {
		return nil
	}
	ch, ok := n.Underlying().(*types.Chan)
	if !ok {
		return nil
	}
	x, err := parser.ParseExpr(types.TypeString(ch.Elem(), func(p *types.Package) string {
		if p == in.pkg.Types {
			return ""
		}
		return p.Name()
	}))
	if err != nil {
		return nil
	}
	return x
}

func (in *instr) isChan(e ast.Expr) bool {
	t := in.typeOf(e)
	if t == nil {
		return false
	}
	_, ok := t.Underlying().(*types.Chan)
	return ok
}

func (in *instr) run() {
	if in.opts.Sync {
		for _, imp := range in.file.Imports {
			if imp.Path.Value == `"sync"` {
				imp.Path.Value = `"verifh/vsync"`
				if imp.Name == nil {
					imp.Name = ast.NewIdent("sync")
				}
			}
		}
	}
	for _, d := range in.file.Decls {
		fd, ok := d.(*ast.FuncDecl)
		if !ok || fd.Body == nil {
			continue
		}
		in.curFunc = fd.Name.Name
		in.rewriteFunc(fd)
	}
	if in.opts.ChanAll {
		// every remaining channel TYPE (struct fields, variables, parameters, results, conversions)
		// becomes the modelled channel; make(chan T, n) was rewritten with the functions
		astutil.Apply(in.file, func(c *astutil.Cursor) bool {
			// a NAMED channel type (type limiter chan T, usually with methods) becomes a struct that
			// embeds the modelled channel: methods stay legal, Send/Recv/Close are promoted
			if ts, ok := c.Node().(*ast.TypeSpec); ok {
				if ct, ok := ts.Type.(*ast.ChanType); ok {
					in.needV = true
					ts.Type = &ast.StructType{Fields: &ast.FieldList{List: []*ast.Field{{Type: &ast.StarExpr{X: &ast.IndexExpr{X: &ast.SelectorExpr{X: ast.NewIdent("vsync"), Sel: ast.NewIdent("Chan")}, Index: ct.Value}}}}}}
				}
			}
			// x == nil / x != nil for a value of such a type
			if be, ok := c.Node().(*ast.BinaryExpr); ok && (be.Op == token.EQL || be.Op == token.NEQ) {
				isNil := func(e ast.Expr) bool { id, ok := e.(*ast.Ident); return ok && id.Name == "nil" }
				if isNil(be.Y) && in.namedChan(be.X) != nil {
					be.X = &ast.SelectorExpr{X: be.X, Sel: ast.NewIdent("Chan")}
				} else if isNil(be.X) && in.namedChan(be.Y) != nil {
					be.Y = &ast.SelectorExpr{X: be.Y, Sel: ast.NewIdent("Chan")}
				}
			}
			// make(chan T, n) outside function bodies (package-level variables)
			if call, ok := c.Node().(*ast.CallExpr); ok {
				if id, ok := call.Fun.(*ast.Ident); ok && id.Name == "make" && len(call.Args) >= 1 {
					if elem := in.namedChan(call.Args[0]); elem != nil {
						// make(limiter, n) -> limiter{vsync.MakeChan[T](n)}
						var size ast.Expr = &ast.BasicLit{Kind: token.INT, Value: "0"}
						if len(call.Args) > 1 {
							size = call.Args[1]
						}
						in.needV = true
						c.Replace(&ast.CompositeLit{Type: call.Args[0], Elts: []ast.Expr{&ast.CallExpr{Fun: &ast.IndexExpr{X: &ast.SelectorExpr{X: ast.NewIdent("vsync"), Sel: ast.NewIdent("MakeChan")}, Index: elem}, Args: []ast.Expr{size}}}})
						return true
					}
				}
			}
			if call, ok := c.Node().(*ast.CallExpr); ok {
				if id, ok := call.Fun.(*ast.Ident); ok && id.Name == "make" && len(call.Args) >= 1 {
					if ct, ok := call.Args[0].(*ast.ChanType); ok {
						var size ast.Expr = &ast.BasicLit{Kind: token.INT, Value: "0"}
						if len(call.Args) > 1 {
							size = call.Args[1]
						}
						in.needV = true
						c.Replace(&ast.CallExpr{Fun: &ast.IndexExpr{X: &ast.SelectorExpr{X: ast.NewIdent("vsync"), Sel: ast.NewIdent("MakeChan")}, Index: ct.Value}, Args: []ast.Expr{size}})
					}
				}
			}
			return true
		}, func(c *astutil.Cursor) bool {
			if ct, ok := c.Node().(*ast.ChanType); ok {
				in.needV = true
				c.Replace(&ast.StarExpr{X: &ast.IndexExpr{X: &ast.SelectorExpr{X: ast.NewIdent("vsync"), Sel: ast.NewIdent("Chan")}, Index: ct.Value}})
			}
			return true
		})
	}
	if in.needV {
		astutil.AddNamedImport(in.pkg.Fset, in.file, "vsync", "verifh/vsync")
	}
	if in.needUns {
		astutil.AddImport(in.pkg.Fset, in.file, "unsafe")
	}
}

func (in *instr) rewriteFunc(fd *ast.FuncDecl) {
	chanOn := in.opts.ChanIn[fd.Name.Name] || in.opts.ChanAll
	// 1. statement-level rewrites that need block context
	in.rewriteBlocks(fd.Body, chanOn)
	// 2. expression-level channel rewrites
	if chanOn {
		astutil.Apply(fd.Body, nil, func(c *astutil.Cursor) bool {
			switch n := c.Node().(type) {
			case *ast.CallExpr:
				if id, ok := n.Fun.(*ast.Ident); ok {
					if id.Name == "make" && len(n.Args) >= 1 {
						if ct, ok := n.Args[0].(*ast.ChanType); ok {
							var size ast.Expr = &ast.BasicLit{Kind: token.INT, Value: "0"}
							if len(n.Args) > 1 {
								size = n.Args[1]
							}
							in.needV = true
							c.Replace(&ast.CallExpr{Fun: &ast.IndexExpr{X: &ast.SelectorExpr{X: ast.NewIdent("vsync"), Sel: ast.NewIdent("MakeChan")}, Index: ct.Value}, Args: []ast.Expr{size}})
						}
					}
					if id.Name == "close" && len(n.Args) == 1 && in.isChan(n.Args[0]) {
						c.Replace(&ast.CallExpr{Fun: &ast.SelectorExpr{X: n.Args[0], Sel: ast.NewIdent("Close")}})
					}
					if id.Name == "len" && len(n.Args) == 1 && in.isChan(n.Args[0]) {
						c.Replace(&ast.CallExpr{Fun: &ast.SelectorExpr{X: n.Args[0], Sel: ast.NewIdent("Len")}})
					}
				}
			case *ast.UnaryExpr:
				if n.Op == token.ARROW {
					c.Replace(&ast.CallExpr{Fun: &ast.SelectorExpr{X: n.X, Sel: ast.NewIdent("Recv")}})
				}
			case *ast.SelectStmt:
				die("%s: select statement in a function with modelled channels", in.pkg.Fset.Position(n.Pos()))
			}
			return true
		})
	}
	// 3. yield at function entry
	if in.opts.Yield != "" {
		in.needV = true
		fd.Body.List = append([]ast.Stmt{&ast.ExprStmt{X: in.vcall("Yield", in.siteStr(fd.Name.Name+" entry", fd))}}, fd.Body.List...)
	}
}

func (in *instr) siteStr(s string, n ast.Node) *ast.BasicLit {
	pos := in.pkg.Fset.Position(n.Pos())
	return &ast.BasicLit{Kind: token.STRING, Value: strconv.Quote(fmt.Sprintf("%s:%d %s", in.base, pos.Line, s))}
}

// rewriteBlocks walks every statement list.
func (in *instr) rewriteBlocks(root ast.Node, chanOn bool) {
	ast.Inspect(root, func(n ast.Node) bool {
		switch b := n.(type) {
		case *ast.BlockStmt:
			b.List = in.rewriteList(b.List, chanOn)
		case *ast.CaseClause:
			b.Body = in.rewriteList(b.Body, chanOn)
		case *ast.CommClause:
			b.Body = in.rewriteList(b.Body, chanOn)
		}
		return true
	})
}

func (in *instr) rewriteList(list []ast.Stmt, chanOn bool) []ast.Stmt {
	var out []ast.Stmt
	for _, st := range list {
		// access events for this statement (not descending into nested blocks / function literals)
		if len(in.opts.Access) > 0 {
			out = append(out, in.accessEvents(st)...)
		}
		if in.callsInto(st) {
			out = append(out, &ast.ExprStmt{X: in.vcall("Yield", in.siteStr("before library call", st))})
			out = append(out, st)
			out = append(out, &ast.ExprStmt{X: in.vcall("Yield", in.siteStr("after library call", st))})
			continue
		}
		switch s := st.(type) {
		case *ast.GoStmt:
			if in.opts.Go {
				out = append(out, in.rewriteGo(s))
				continue
			}
		case *ast.SelectStmt:
			if chanOn {
				if r := in.rewriteTrySelect(s); r != nil {
					out = append(out, r)
					continue
				}
			}
		case *ast.SendStmt:
			if chanOn {
				out = append(out, &ast.ExprStmt{X: &ast.CallExpr{Fun: &ast.SelectorExpr{X: s.Chan, Sel: ast.NewIdent("Send")}, Args: []ast.Expr{s.Value}}})
				continue
			}
		case *ast.RangeStmt:
			if chanOn && in.isChan(s.X) {
				out = append(out, in.rewriteRangeChan(s))
				continue
			}
			if in.opts.MapOrder && in.isMap(s.X) {
				out = append(out, in.rewriteRangeMap(s))
				continue
			}
			if in.opts.Access["*"] && !in.opts.NoElementReads {
				if rs := in.rangeElementReads(s); rs != nil {
					out = append(out, rs)
					continue
				}
			}
			if in.opts.Yield == "fine" || (in.opts.Yield == "coarse" && in.outerLoop(s)) {
				s.Body.List = append([]ast.Stmt{&ast.ExprStmt{X: in.vcall("Yield", in.siteStr("loop", s))}}, s.Body.List...)
			}
		case *ast.ForStmt:
			if in.opts.Yield == "fine" || (in.opts.Yield == "coarse" && in.outerLoop(s)) {
				s.Body.List = append([]ast.Stmt{&ast.ExprStmt{X: in.vcall("Yield", in.siteStr("loop", s))}}, s.Body.List...)
			}
		case *ast.AssignStmt:
			if chanOn && len(s.Rhs) == 1 && len(s.Lhs) == 2 {
				if u, ok := s.Rhs[0].(*ast.UnaryExpr); ok && u.Op == token.ARROW {
					s.Rhs[0] = &ast.CallExpr{Fun: &ast.SelectorExpr{X: u.X, Sel: ast.NewIdent("Recv2")}}
				}
			}
		}
		out = append(out, st)
	}
	return out
}

// callsInto reports whether a simple statement calls a function or method of a package listed
// in YieldCalls.
func (in *instr) callsInto(st ast.Stmt) bool {
	if len(in.opts.YieldCalls) == 0 {
		return false
	}
	switch st.(type) {
	case *ast.AssignStmt, *ast.ExprStmt:
	default:
		return false
	}
	found := false
	ast.Inspect(st, func(n ast.Node) bool {
		if _, ok := n.(*ast.FuncLit); ok {
			return false
		}
		call, ok := n.(*ast.CallExpr)
		if !ok {
			return true
		}
		var obj types.Object
		switch f := call.Fun.(type) {
		case *ast.SelectorExpr:
			obj = in.pkg.TypesInfo.Uses[f.Sel]
		case *ast.Ident:
			obj = in.pkg.TypesInfo.Uses[f]
		}
		if fn, ok := obj.(*types.Func); ok && fn.Pkg() != nil {
			for _, frag := range in.opts.YieldCalls {
				if strings.Contains(fn.Pkg().Path(), frag) {
					found = true
				}
			}
		}
		return true
	})
	return found
}

// outerLoop: coarse yields only in loops that are not nested inside another
// loop of the same function.
func (in *instr) outerLoop(n ast.Node) bool {
	path, _ := astutil.PathEnclosingInterval(in.file, n.Pos(), n.Pos())
	for _, p := range path[1:] {
		switch p.(type) {
		case *ast.ForStmt, *ast.RangeStmt:
			return false
		case *ast.FuncDecl, *ast.FuncLit:
			return true
		}
	}
	return true
}

func (in *instr) rewriteGo(s *ast.GoStmt) ast.Stmt {
	call := s.Call
	var pre []ast.Stmt
	fn := ast.NewIdent("vgoF")
	pre = append(pre, &ast.AssignStmt{Lhs: []ast.Expr{fn}, Tok: token.DEFINE, Rhs: []ast.Expr{call.Fun}})
	var args []ast.Expr
	for i, a := range call.Args {
		id := ast.NewIdent(fmt.Sprintf("vgoA%d", i))
		pre = append(pre, &ast.AssignStmt{Lhs: []ast.Expr{id}, Tok: token.DEFINE, Rhs: []ast.Expr{a}})
		args = append(args, id)
	}
	inner := &ast.CallExpr{Fun: fn, Args: args, Ellipsis: call.Ellipsis}
	lit := &ast.FuncLit{Type: &ast.FuncType{Params: &ast.FieldList{}}, Body: &ast.BlockStmt{List: []ast.Stmt{&ast.ExprStmt{X: inner}}}}
	pre = append(pre, &ast.ExprStmt{X: in.vcall("Go", in.site(s), lit)})
	return &ast.BlockStmt{List: pre}
}

// rewriteTrySelect handles the non-blocking idiom: a select with ONE communication clause and a
// default clause becomes an if/else on TryRecv2 / TrySend. Other selects are left alone (and are a
// hard error later).
func (in *instr) rewriteTrySelect(s *ast.SelectStmt) ast.Stmt {
	if len(s.Body.List) != 2 {
		return nil
	}
	var comm, def *ast.CommClause
	for _, c := range s.Body.List {
		cc := c.(*ast.CommClause)
		if cc.Comm == nil {
			def = cc
		} else {
			comm = cc
		}
	}
	if comm == nil || def == nil {
		return nil
	}
	got := ast.NewIdent("vselGot")
	thenB := &ast.BlockStmt{List: comm.Body}
	elseB := &ast.BlockStmt{List: def.Body}
	try := func(ch ast.Expr) ast.Expr {
		return &ast.CallExpr{Fun: &ast.SelectorExpr{X: ch, Sel: ast.NewIdent("TryRecv2")}}
	}
	switch c := comm.Comm.(type) {
	case *ast.SendStmt:
		return &ast.IfStmt{Cond: &ast.CallExpr{Fun: &ast.SelectorExpr{X: c.Chan, Sel: ast.NewIdent("TrySend")}, Args: []ast.Expr{c.Value}}, Body: thenB, Else: elseB}
	case *ast.ExprStmt:
		u, ok := c.X.(*ast.UnaryExpr)
		if !ok || u.Op != token.ARROW {
			return nil
		}
		init := &ast.AssignStmt{Lhs: []ast.Expr{ast.NewIdent("_"), ast.NewIdent("_"), got}, Tok: token.DEFINE, Rhs: []ast.Expr{try(u.X)}}
		return &ast.IfStmt{Init: init, Cond: got, Body: thenB, Else: elseB}
	case *ast.AssignStmt:
		if len(c.Rhs) != 1 || len(c.Lhs) < 1 || len(c.Lhs) > 2 {
			return nil
		}
		u, ok := c.Rhs[0].(*ast.UnaryExpr)
		if !ok || u.Op != token.ARROW {
			return nil
		}
		if c.Tok == token.DEFINE {
			var okv ast.Expr = ast.NewIdent("_")
			if len(c.Lhs) == 2 {
				okv = c.Lhs[1]
			}
			init := &ast.AssignStmt{Lhs: []ast.Expr{c.Lhs[0], okv, got}, Tok: token.DEFINE, Rhs: []ast.Expr{try(u.X)}}
			// a declared but unused value would not compile: mention it
			use := []ast.Stmt{&ast.AssignStmt{Lhs: []ast.Expr{ast.NewIdent("_")}, Tok: token.ASSIGN, Rhs: []ast.Expr{c.Lhs[0]}}}
			if id, isID := c.Lhs[0].(*ast.Ident); isID && id.Name == "_" {
				use = nil
			}
			thenB.List = append(use, thenB.List...)
			return &ast.IfStmt{Init: init, Cond: got, Body: thenB, Else: elseB}
		}
		tv, tok := ast.NewIdent("vselV"), ast.NewIdent("vselOK")
		init := &ast.AssignStmt{Lhs: []ast.Expr{tv, tok, got}, Tok: token.DEFINE, Rhs: []ast.Expr{try(u.X)}}
		pre := []ast.Stmt{&ast.AssignStmt{Lhs: []ast.Expr{c.Lhs[0]}, Tok: token.ASSIGN, Rhs: []ast.Expr{tv}}}
		if len(c.Lhs) == 2 {
			pre = append(pre, &ast.AssignStmt{Lhs: []ast.Expr{c.Lhs[1]}, Tok: token.ASSIGN, Rhs: []ast.Expr{tok}})
		} else {
			pre = append(pre, &ast.AssignStmt{Lhs: []ast.Expr{ast.NewIdent("_")}, Tok: token.ASSIGN, Rhs: []ast.Expr{tok}})
		}
		thenB.List = append(pre, thenB.List...)
		return &ast.IfStmt{Init: init, Cond: got, Body: thenB, Else: elseB}
	}
	return nil
}

func (in *instr) rewriteRangeChan(s *ast.RangeStmt) ast.Stmt {
	if s.Value != nil {
		die("%s: range over channel with two variables", in.pkg.Fset.Position(s.Pos()))
	}
	ok := ast.NewIdent("vchOK")
	var lhs ast.Expr = ast.NewIdent("_")
	tok := token.DEFINE
	if s.Key != nil {
		lhs = s.Key
		tok = s.Tok
	}
	recv := &ast.AssignStmt{Lhs: []ast.Expr{lhs, ok}, Tok: token.DEFINE, Rhs: []ast.Expr{&ast.CallExpr{Fun: &ast.SelectorExpr{X: s.X, Sel: ast.NewIdent("Recv2")}}}}
	if tok == token.ASSIGN {
		// for x = range ch : keep assignment semantics
		tmp := ast.NewIdent("vchV")
		recv = &ast.AssignStmt{Lhs: []ast.Expr{tmp, ok}, Tok: token.DEFINE, Rhs: recv.Rhs}
		body := append([]ast.Stmt{recv, &ast.IfStmt{Cond: &ast.UnaryExpr{Op: token.NOT, X: ok}, Body: &ast.BlockStmt{List: []ast.Stmt{&ast.BranchStmt{Tok: token.BREAK}}}},
			&ast.AssignStmt{Lhs: []ast.Expr{lhs}, Tok: token.ASSIGN, Rhs: []ast.Expr{tmp}}}, s.Body.List...)
		return &ast.ForStmt{Body: &ast.BlockStmt{List: body}}
	}
	body := append([]ast.Stmt{recv, &ast.IfStmt{Cond: &ast.UnaryExpr{Op: token.NOT, X: ok}, Body: &ast.BlockStmt{List: []ast.Stmt{&ast.BranchStmt{Tok: token.BREAK}}}}}, s.Body.List...)
	if s.Key == nil {
		body[0] = &ast.AssignStmt{Lhs: []ast.Expr{ast.NewIdent("_"), ok}, Tok: token.DEFINE, Rhs: recv.Rhs}
	}
	return &ast.ForStmt{Body: &ast.BlockStmt{List: body}}
}

// rewriteRangeMap: for k, v := range m  ==>  for _, k := range vsync.MapKeys(site, m) { v := m[k]; ... }
func (in *instr) rewriteRangeMap(s *ast.RangeStmt) ast.Stmt {
	if s.Tok == token.ASSIGN {
		die("%s: range over map with assignment (=) form", in.pkg.Fset.Position(s.Pos()))
	}
	isBlank := func(e ast.Expr) bool {
		id, ok := e.(*ast.Ident)
		return e == nil || (ok && id.Name == "_")
	}
	key := ast.NewIdent("vmapK")
	if !isBlank(s.Key) {
		key = s.Key.(*ast.Ident)
	}
	body := s.Body.List
	if !isBlank(s.Value) {
		body = append([]ast.Stmt{&ast.AssignStmt{Lhs: []ast.Expr{s.Value}, Tok: token.DEFINE, Rhs: []ast.Expr{&ast.IndexExpr{X: s.X, Index: key}}}}, body...)
	}
	if in.opts.Yield == "fine" {
		body = append([]ast.Stmt{&ast.ExprStmt{X: in.vcall("Yield", in.siteStr("loop", s))}}, body...)
	}
	return &ast.RangeStmt{Key: ast.NewIdent("_"), Value: key, Tok: token.DEFINE,
		X: in.vcall("MapKeys", in.site(s), s.X), Body: &ast.BlockStmt{List: body}}
}

// rangeElementReads: `for k, v := range X` over a watched slice reads element k in every
// iteration. X is evaluated once, so the loop is rewritten to range over a local copy of the
// slice header and an access event for &copy[k] opens the body:
//
//	{ vrX := X; for k, v := range vrX { vsync.Access(&vrX[k], false, site); ... } }
func (in *instr) rangeElementReads(s *ast.RangeStmt) ast.Stmt {
	isBlank := func(e ast.Expr) bool {
		id, ok := e.(*ast.Ident)
		return e == nil || (ok && id.Name == "_")
	}
	if isBlank(s.Value) {
		return nil // no element is read
	}
	name := in.watchedName(s.X)
	if name == "" {
		return nil
	}
	t := in.typeOf(s.X)
	if t == nil {
		return nil
	}
	if _, ok := t.Underlying().(*types.Slice); !ok {
		return nil
	}
	if isBlank(s.Key) && s.Tok != token.DEFINE {
		return nil
	}
	in.rangeN++
	cp := ast.NewIdent(fmt.Sprintf("vrX%d", in.rangeN))
	key := s.Key
	if isBlank(s.Key) {
		key = ast.NewIdent(fmt.Sprintf("vrK%d", in.rangeN))
	}
	in.needUns = true
	ev := &ast.ExprStmt{X: in.vcall("Access",
		&ast.CallExpr{Fun: &ast.SelectorExpr{X: ast.NewIdent("unsafe"), Sel: ast.NewIdent("Pointer")}, Args: []ast.Expr{&ast.UnaryExpr{Op: token.AND, X: &ast.IndexExpr{X: cp, Index: key}}}},
		ast.NewIdent("false"),
		&ast.BasicLit{Kind: token.STRING, Value: strconv.Quote(fmt.Sprintf("%s[i] (range) %s:%d", name, in.base, in.pkg.Fset.Position(s.Pos()).Line))})}
	body := append([]ast.Stmt{ev}, s.Body.List...)
	if in.opts.Yield == "fine" || (in.opts.Yield == "coarse" && in.outerLoop(s)) {
		body = append([]ast.Stmt{&ast.ExprStmt{X: in.vcall("Yield", in.siteStr("loop", s))}}, body...)
	}
	loop := &ast.RangeStmt{Key: key, Value: s.Value, Tok: s.Tok, X: cp, Body: &ast.BlockStmt{List: body}}
	return &ast.BlockStmt{List: []ast.Stmt{
		&ast.AssignStmt{Lhs: []ast.Expr{cp}, Tok: token.DEFINE, Rhs: []ast.Expr{s.X}},
		loop,
	}}
}

// fieldName returns "Type.field" for a field selector ("" otherwise).
func (in *instr) fieldName(x *ast.SelectorExpr) string {
	sel, ok := in.pkg.TypesInfo.Selections[x]
	if !ok || sel.Kind() != types.FieldVal {
		return ""
	}
	recv := sel.Recv()
	if p, ok := recv.(*types.Pointer); ok {
		recv = p.Elem()
	}
	if named, ok := recv.(*types.Named); ok {
		return named.Obj().Name() + "." + x.Sel.Name
	}
	return ""
}

// watchedName returns the display name of a watched location expression ("" if e is not one):
// a listed field, or under the wildcard any addressable field of a struct type declared in this
// package or of a package-level variable of this package, or an alias of such a field.
func (in *instr) watchedName(e ast.Expr) string {
	switch x := ast.Unparen(e).(type) {
	case *ast.SelectorExpr:
		name := in.fieldName(x)
		if name == "" {
			return ""
		}
		if in.opts.Access[name] {
			return name
		}
		if !in.opts.Access["*"] {
			return ""
		}
		sel := in.pkg.TypesInfo.Selections[x]
		recv := sel.Recv()
		if p, ok := recv.(*types.Pointer); ok {
			recv = p.Elem()
		}
		named, ok := recv.(*types.Named)
		if !ok {
			return ""
		}
		if named.Obj().Pkg() != in.pkg.Types {
			// a field of a type declared elsewhere is watched when it is reached through a
			// package-level variable of this package (dmp.DiffTimeout): every call shares the object
			id, isId := ast.Unparen(x.X).(*ast.Ident)
			if !isId {
				return ""
			}
			v, isVar := in.pkg.TypesInfo.Uses[id].(*types.Var)
			if !isVar || v.IsField() || v.Parent() != in.pkg.Types.Scope() {
				return ""
			}
			name = id.Name + "." + x.Sel.Name + " (field of a package variable)"
		}
		if tv, ok := in.pkg.TypesInfo.Types[x]; !ok || !tv.Addressable() {
			return ""
		}
		return name
	case *ast.Ident:
		if al, ok := in.aliases[in.pkg.TypesInfo.Uses[x]]; ok {
			return al.name + " (through local alias " + x.Name + ")"
		}
		if v, ok := in.pkg.TypesInfo.Uses[x].(*types.Var); ok && in.opts.Access["*"] && !v.IsField() && v.Parent() == in.pkg.Types.Scope() {
			return "package variable " + x.Name
		}
	}
	return ""
}

// hoistable reports whether evaluating &e right before statement st is safe and means the same
// as inside it: no calls or other side effects in e, and no identifier declared inside st.
func (in *instr) hoistable(e ast.Expr, st ast.Stmt) bool {
	ok := true
	ast.Inspect(e, func(n ast.Node) bool {
		switch x := n.(type) {
		case *ast.CallExpr:
			if id, isId := x.Fun.(*ast.Ident); isId && id.Name == "len" && in.pkg.TypesInfo.Uses[id] == types.Universe.Lookup("len") {
				return true
			}
			ok = false
		case *ast.FuncLit, *ast.TypeAssertExpr, *ast.CompositeLit, *ast.SliceExpr:
			ok = false
		case *ast.UnaryExpr:
			if x.Op == token.ARROW {
				ok = false
			}
		case *ast.BinaryExpr:
			if x.Op == token.QUO || x.Op == token.REM || x.Op == token.SHL || x.Op == token.SHR {
				ok = false
			}
		case *ast.Ident:
			if o := in.pkg.TypesInfo.Uses[x]; o != nil && o.Pos() >= st.Pos() && o.Pos() < st.End() {
				ok = false
			}
			if o := in.pkg.TypesInfo.Defs[x]; o != nil {
				ok = false
			}
		}
		return ok
	})
	return ok
}

// accessEvents returns vsync.Access statements for the watched field
// selectors that occur directly in st (not inside nested blocks or function
// literals, which get their own events when their statement lists are walked).
func (in *instr) accessEvents(st ast.Stmt) []ast.Stmt {
	var out []ast.Stmt
	writes := map[ast.Expr]bool{}
	markWrite := func(e ast.Expr) {
		for {
			switch x := e.(type) {
			case *ast.IndexExpr:
				if t := in.typeOf(x.X); t != nil && in.opts.Access["*"] {
					if _, isMap := t.Underlying().(*types.Map); !isMap {
						// slice / array element: the element is written, the header only read
						writes[x] = true
						return
					}
				}
				writes[x.X] = true // element assignment writes the map
				e = x.X
				continue
			case *ast.ParenExpr:
				e = x.X
				continue
			}
			break
		}
		writes[e] = true
	}
	direct := map[ast.Expr]bool{} // identifiers assigned as a whole (the variable, not what it refers to)
	switch s := st.(type) {
	case *ast.AssignStmt:
		for _, l := range s.Lhs {
			markWrite(l)
			direct[l] = true
		}
		// x := c.watched (map, slice or pointer): x aliases the watched object; later uses of x
		// are accesses of that object
		if len(s.Lhs) == len(s.Rhs) {
			for i, r := range s.Rhs {
				sel, ok := ast.Unparen(r).(*ast.SelectorExpr)
				id, ok2 := s.Lhs[i].(*ast.Ident)
				if !ok || !ok2 || id.Name == "_" {
					continue
				}
				name := in.fieldName(sel)
				if name == "" || !in.opts.Access[name] {
					continue
				}
				switch in.pkg.TypesInfo.TypeOf(sel).Underlying().(type) {
				case *types.Map, *types.Slice, *types.Pointer:
				default:
					continue
				}
				obj := in.pkg.TypesInfo.Defs[id]
				if obj == nil {
					obj = in.pkg.TypesInfo.Uses[id]
				}
				if obj != nil {
					if in.aliases == nil {
						in.aliases = map[types.Object]aliasInfo{}
					}
					in.aliases[obj] = aliasInfo{sel: sel, name: name}
				}
			}
		}
	case *ast.IncDecStmt:
		markWrite(s.X)
	}
	var visit func(n ast.Node) bool
	visit = func(n ast.Node) bool {
		switch x := n.(type) {
		case *ast.BlockStmt, *ast.FuncLit:
			return false
		case *ast.Ident:
			if in.opts.Access["*"] {
				if v, ok := in.pkg.TypesInfo.Uses[x].(*types.Var); ok && !v.IsField() && v.Parent() == in.pkg.Types.Scope() {
					in.needUns = true
					out = append(out, &ast.ExprStmt{X: in.vcall("Access",
						&ast.CallExpr{Fun: &ast.SelectorExpr{X: ast.NewIdent("unsafe"), Sel: ast.NewIdent("Pointer")}, Args: []ast.Expr{&ast.UnaryExpr{Op: token.AND, X: ast.NewIdent(x.Name)}}},
						ast.NewIdent(strconv.FormatBool(writes[x])),
						&ast.BasicLit{Kind: token.STRING, Value: strconv.Quote(fmt.Sprintf("package variable %s %s:%d", x.Name, in.base, in.pkg.Fset.Position(x.Pos()).Line))})})
				}
			}
			if al, ok := in.aliases[in.pkg.TypesInfo.Uses[x]]; ok && !direct[x] {
				in.needUns = true
				out = append(out, &ast.ExprStmt{X: in.vcall("Access",
					&ast.CallExpr{Fun: &ast.SelectorExpr{X: ast.NewIdent("unsafe"), Sel: ast.NewIdent("Pointer")}, Args: []ast.Expr{&ast.UnaryExpr{Op: token.AND, X: al.sel}}},
					ast.NewIdent(strconv.FormatBool(writes[x])),
					&ast.BasicLit{Kind: token.STRING, Value: strconv.Quote(fmt.Sprintf("%s (through local alias %s) %s:%d", al.name, x.Name, in.base, in.pkg.Fset.Position(x.Pos()).Line))})})
			}
		case *ast.CallExpr:
			// delete(m, k) writes the map; append target handled as assignment
			if id, ok := x.Fun.(*ast.Ident); ok && id.Name == "delete" && len(x.Args) == 2 {
				writes[x.Args[0]] = true
			}
			// method call on a watched pointer field: access of the pointee
			if fun, ok := x.Fun.(*ast.SelectorExpr); ok {
				if inner, ok := fun.X.(*ast.SelectorExpr); ok {
					if name := in.fieldName(inner); name != "" && in.opts.Deref[name] != nil {
						in.needUns = true
						out = append(out, &ast.ExprStmt{X: in.vcall("Access",
							&ast.CallExpr{Fun: &ast.SelectorExpr{X: ast.NewIdent("unsafe"), Sel: ast.NewIdent("Pointer")}, Args: []ast.Expr{inner}},
							ast.NewIdent(strconv.FormatBool(!in.opts.Deref[name][fun.Sel.Name])),
							&ast.BasicLit{Kind: token.STRING, Value: strconv.Quote(fmt.Sprintf("*%s.%s() %s:%d", name, fun.Sel.Name, in.base, in.pkg.Fset.Position(x.Pos()).Line))})})
					}
				}
			}
		case *ast.BinaryExpr:
			if in.opts.Access["*"] && (x.Op == token.LAND || x.Op == token.LOR) {
				// the right operand is evaluated conditionally: an event hoisted before the statement
				// could fault where the statement does not (under-approximation: no events for it)
				ast.Inspect(x.X, visit)
				return false
			}
		case *ast.IndexExpr:
			// element of a watched slice or array: the element is the location (two goroutines
			// writing different elements do not conflict); the header is read
			if in.opts.Access["*"] && in.hoistable(x, st) && (writes[x] || !in.opts.NoElementReads) {
				name := in.watchedName(x.X)
				if name == "" && writes[x] {
					// an element WRITE through any other slice expression (a parameter, a local re-slice):
					// the slice may share its backing array with state that other calls reach
					if t := in.typeOf(x.X); t != nil {
						if _, ok := t.Underlying().(*types.Slice); ok {
							name = "slice element written through " + types.ExprString(x.X)
						}
					}
				}
				if name != "" {
					switch in.typeOf(x.X).Underlying().(type) {
					case *types.Slice, *types.Array:
						in.needUns = true
						out = append(out, &ast.ExprStmt{X: in.vcall("Access",
							&ast.CallExpr{Fun: &ast.SelectorExpr{X: ast.NewIdent("unsafe"), Sel: ast.NewIdent("Pointer")}, Args: []ast.Expr{&ast.UnaryExpr{Op: token.AND, X: x}}},
							ast.NewIdent(strconv.FormatBool(writes[x])),
							&ast.BasicLit{Kind: token.STRING, Value: strconv.Quote(fmt.Sprintf("%s[i] %s:%d", name, in.base, in.pkg.Fset.Position(x.Pos()).Line))})})
					}
				}
			}
		case *ast.SelectorExpr:
			if name := in.watchedName(x); name != "" && (!in.opts.Access["*"] || in.hoistable(x, st)) {
				in.needUns = true
				out = append(out, &ast.ExprStmt{X: in.vcall("Access",
					&ast.CallExpr{Fun: &ast.SelectorExpr{X: ast.NewIdent("unsafe"), Sel: ast.NewIdent("Pointer")}, Args: []ast.Expr{&ast.UnaryExpr{Op: token.AND, X: x}}},
					ast.NewIdent(strconv.FormatBool(writes[x])),
					&ast.BasicLit{Kind: token.STRING, Value: strconv.Quote(fmt.Sprintf("%s %s:%d", name, in.base, in.pkg.Fset.Position(x.Pos()).Line))})})
			}
		}
		return true
	}
	// only the "header" of compound statements
	switch s := st.(type) {
	case *ast.IfStmt:
		if s.Init != nil {
			ast.Inspect(s.Init, visit)
		}
		ast.Inspect(s.Cond, visit)
	case *ast.ForStmt:
		if s.Cond != nil {
			ast.Inspect(s.Cond, visit)
		}
	case *ast.RangeStmt:
		ast.Inspect(s.X, visit)
	case *ast.SwitchStmt:
		if s.Tag != nil {
			ast.Inspect(s.Tag, visit)
		}
	case *ast.BlockStmt, *ast.GoStmt, *ast.DeferStmt, *ast.LabeledStmt, *ast.SelectStmt, *ast.TypeSwitchStmt, *ast.CaseClause, *ast.CommClause:
	default:
		ast.Inspect(st, visit)
	}
	return out
}
