package main

import "fmt"

const (
	pkgV2      = "github.com/google/licenseclassifier/v2"
	pkgSC      = "github.com/google/licenseclassifier/stringclassifier"
	pkgSS      = "github.com/google/licenseclassifier/stringclassifier/searchset"
	pkgTok     = "github.com/google/licenseclassifier/stringclassifier/searchset/tokenizer"
	pkgSets    = "github.com/google/licenseclassifier/internal/sets"
	pkgIntSets = "github.com/google/licenseclassifier/stringclassifier/internal/sets"
	pkgPQ      = "github.com/google/licenseclassifier/stringclassifier/internal/pq"
	pkgCP      = "github.com/google/licenseclassifier/commentparser"
	pkgBackend = "github.com/google/licenseclassifier/v2/tools/identify_license/backend"
	pkgResults = "github.com/google/licenseclassifier/v2/tools/identify_license/results"
	pkgExtV1   = "verifh/ext/v1"
	pkgExtCLI  = "verifh/ext/cli"
)

func propertyIDs() []string {
	return []string{"C01", "C02", "C03", "C04", "C05", "C06", "C07", "C08", "C09", "C10",
		"C11", "C12", "C13", "C14", "C15", "C16", "C17", "C18", "C19", "C20"}
}

func plans(id, tier string) (Plan, bool) {
	th := tier == "thorough"
	pick := func(q, t int) int {
		if th {
			return t
		}
		return q
	}
	_ = pick
	switch id {
	case "C01":
		var jobs []Job
		ts := []string{"0.7", "0.8", "1"}
		if th {
			ts = []string{"0.7", "0.75", "0.8", "0.85", "0.9", "0.95", "0.99", "1"}
		}
		for _, t := range ts {
			jobs = append(jobs, Job{Pkg: pkgV2, Harness: "c01_embedded", Params: "t=" + t, Shards: pick(4, 4)})
		}
		for _, t := range []string{"0.7", "0.8", "0.9", "1"} {
			jobs = append(jobs, Job{Pkg: pkgV2, Harness: "c01_small", Params: "t=" + t, Shards: pick(1, 3)})
		}
		jobs = append(jobs, Job{Pkg: pkgV2, Harness: "c01_small", Params: "t=0.8;replace=yes", Shards: pick(1, 3)})
		jobs = append(jobs, Job{Pkg: pkgV2, Harness: "c01_small", Params: "t=0.8;vocab=accented", Shards: pick(1, 3)})
		jobs = append(jobs, Job{Pkg: pkgV2, Harness: "c01_small", Params: "t=1;vocab=accented", Shards: pick(1, 3)})
		for _, t := range ts[:pick(2, 4)] {
			jobs = append(jobs, Job{Pkg: pkgV2, Harness: "c01_sequences", Params: "t=" + t, Shards: pick(2, 8)})
		}
		jobs = append(jobs, Job{Pkg: pkgV2, Harness: "c01_embedded", Params: "t=0.8;history=normalize", Shards: 4})
		jobs = append(jobs, Job{Pkg: pkgV2, Harness: "c01_embedded", Params: "t=0.8;history=queries", Shards: 8})
		jobs = append(jobs, Job{Pkg: pkgV2, Harness: "c01_lengths", Shards: 16})
		jobs = append(jobs, Job{Pkg: pkgV2, Harness: "c01_refrains", Shards: 16})
		for _, t := range []string{"0.7", "0.8", "0.9"} {
			jobs = append(jobs, Job{Pkg: pkgV2, Harness: "c01_composites", Params: "t=" + t, Shards: 2})
		}
		return Plan{Level: "exploration", Jobs: jobs}, true
	case "C02":
		return Plan{Level: "exploration", Jobs: []Job{
			{Pkg: pkgV2, Harness: "c02_small", Shards: pick(8, 16)},
			// the same scope over a vocabulary of 2- and 3-byte letters, and with the vocabulary's token
			// ids placed around the UTF-16 surrogate range and U+FFFD (ids are handed to go-diff as runes)
			{Pkg: pkgV2, Harness: "c02_small", Params: fmt.Sprintf("vocab=accented;maxlen=%d", pick(5, 8)), Shards: pick(8, 16)},
			{Pkg: pkgV2, Harness: "c02_small", Params: fmt.Sprintf("replace=yes;maxlen=%d", pick(5, 7)), Shards: pick(4, 16)},
			{Pkg: pkgV2, Harness: "c02_small", Params: fmt.Sprintf("dictoffset=55294;corpora=%d;maxlen=%d", pick(16, 16), pick(6, 8)), Shards: pick(4, 16)},
			{Pkg: pkgV2, Harness: "c02_small", Params: fmt.Sprintf("dictoffset=57341;corpora=%d;maxlen=%d", pick(16, 16), pick(6, 8)), Shards: pick(4, 16)},
			{Pkg: pkgV2, Harness: "c02_small", Params: fmt.Sprintf("dictoffset=65531;corpora=%d;maxlen=%d", pick(16, 16), pick(6, 8)), Shards: pick(4, 16)},
			{Pkg: pkgV2, Harness: "c02_corpus", Params: "t=0.8", Shards: 16},
			{Pkg: pkgV2, Harness: "c02_corpus", Params: "t=0.8;families=window;split=4", Shards: 16},
			{Pkg: pkgV2, Harness: "c02_corpus", Params: "t=0.8;families=selfrepeat;ndocs=" + fmt.Sprint(pick(60, 431)), Shards: 16},
			{Pkg: pkgV2, Harness: "c02_corpus", Params: "t=0.8;families=clusters;ndocs=" + fmt.Sprint(pick(60, 431)), Shards: 16},
			{Pkg: pkgV2, Harness: "c02_corpus", Params: "t=0.8;docs=gnu;families=specialwords", Shards: 16},
			{Pkg: pkgV2, Harness: "c02_corpus", Params: "t=0.8;families=resplit;ndocs=431", Shards: 16},
			{Pkg: pkgV2, Harness: "c02_corpus", Params: "t=0.8;families=moved;ndocs=" + fmt.Sprint(pick(40, 431)), Shards: 16},
			{Pkg: pkgV2, Harness: "c02_corpus", Params: "t=0.8;trace=all;families=exact,truncate,partnoise,edit1,periodic;ndocs=" + fmt.Sprint(pick(24, 200)), Shards: 16},
			{Pkg: pkgV2, Harness: "c02_corpus", Params: "t=0.8;families=boundary;ndocs=" + fmt.Sprint(pick(100, 431)), Shards: 16},
			{Pkg: pkgV2, Harness: "c02_corpus", Params: "t=0.9;families=boundary;ndocs=" + fmt.Sprint(pick(40, 431)), Shards: 16},
			{Pkg: pkgV2, Harness: "c02_corpus", Params: "t=0.7;families=boundary;ndocs=" + fmt.Sprint(pick(40, 431)), Shards: 16},
		}}, true
	case "C03":
		return Plan{Level: "exploration", Jobs: []Job{
			{Pkg: pkgV2, Harness: "c03_small", Shards: pick(6, 16)},
			{Pkg: pkgV2, Harness: "c03_small", Params: fmt.Sprintf("vocab=accented;maxlen=%d", pick(5, 6)), Shards: pick(4, 16)},
			{Pkg: pkgV2, Harness: "c03_small", Params: fmt.Sprintf("replace=yes;maxlen=%d", pick(4, 6)), Shards: pick(4, 16)},
			{Pkg: pkgV2, Harness: "c03_corpus", Params: "t=0.8", Shards: pick(10, 16)},
			{Pkg: pkgV2, Harness: "c03_corpus", Params: "t=0.8;families=window;split=4", Shards: 16},
			{Pkg: pkgV2, Harness: "c03_corpus", Params: "t=0.5;families=" + map[bool]string{false: "exact", true: "exact,scenario;ndocs=12"}[th], Shards: pick(6, 16)},
			{Pkg: pkgV2, Harness: "c03_corpus", Params: "t=0.8;families=selfrepeat;ndocs=" + fmt.Sprint(pick(120, 431)), Shards: 16},
			{Pkg: pkgV2, Harness: "c03_corpus", Params: "t=0.8;families=deeplines,wordset,oneline;split=3;ndocs=" + fmt.Sprint(pick(100, 431)), Shards: 16},
			{Pkg: pkgV2, Harness: "c03_corpus", Params: "t=0.8;trace=all;families=concat,scenario,edit1,periodic;ndocs=" + fmt.Sprint(pick(24, 120)), Shards: 16},
			{Pkg: pkgV2, Harness: "c03_bigdocs", Shards: 16},
			{Pkg: pkgV2, Harness: "c03_bytes", Shards: pick(2, 8)},
			{Pkg: pkgV2, Harness: "c03_names", Shards: 1},
		}}, true
	case "C04":
		var deep []Job
		if th {
			// two deviating range executions per Match on a smaller pool
			deep = []Job{{Pkg: pkgV2, Harness: "c04_maporder_corpus", Instr: "v2map", Params: "docs=8;deviations=2", Shards: 16}}
		}
		return Plan{Level: "model_checking", Jobs: append(deep, []Job{
			{Pkg: pkgV2, Harness: "c04_maporder_small", Instr: "v2map", Params: map[bool]string{false: "maxlen=5;deviations=1", true: "maxlen=7;deviations=1"}[th], Shards: pick(8, 16)},
			{Pkg: pkgV2, Harness: "c04_maporder_small", Instr: "v2map", Params: map[bool]string{false: "maxlen=3;deviations=2", true: "maxlen=5;deviations=2"}[th], Shards: pick(4, 16)},
			{Pkg: pkgV2, Harness: "c04_maporder_corpus", Instr: "v2map", Params: map[bool]string{false: "docs=32;deviations=1", true: "docs=431;deviations=1"}[th], Shards: pick(8, 16)},
			{Pkg: pkgV2, Harness: "c04_maporder_many", Instr: "v2map", Shards: 4},
			{Pkg: pkgV2, Harness: "c04_history", Shards: pick(4, 12)},
			{Pkg: pkgV2, Harness: "c04_history", Params: "trace=wildcard", Shards: pick(4, 12)},
			{Pkg: pkgV2, Harness: "c04_config", Shards: pick(4, 8)},
			{Pkg: pkgV2, Harness: "c04_dictwords", Shards: 8},
			{Pkg: pkgV2, Harness: "c04_numbering", Shards: 16},
			{Pkg: pkgV2, Harness: "c04_replace", Shards: pick(4, 16)},
			{Pkg: pkgV2, Harness: "c04_tracelong", Shards: 8},
			{Pkg: pkgV2, Harness: "c04_trace", Shards: pick(4, 8)},
			{Pkg: pkgV2, Harness: "c04_processes", Shards: 1, MaxProcs: 4},
		}...)}, true
	case "C05":
		jobs := []Job{
			{Pkg: pkgV2, Harness: "c05_tokens", Shards: 16},
			{Pkg: pkgV2, Harness: "c05_match", Params: "mode=global", Shards: 16},
			{Pkg: pkgV2, Harness: "c05_match", Params: "mode=scenarios", Shards: pick(4, 8)},
			{Pkg: pkgV2, Harness: "c05_match", Params: "mode=perline", Shards: pick(4, 16)},
			{Pkg: pkgV2, Harness: "c05_match", Params: "mode=pairs", Shards: pick(8, 16)},
			{Pkg: pkgV2, Harness: "c05_match", Params: "mode=notices", Shards: pick(4, 8)},
			{Pkg: pkgV2, Harness: "c05_match", Params: "mode=longwords", Shards: 16},
			{Pkg: pkgV2, Harness: "c05_match", Params: "mode=prefixquote", Shards: 16},
			{Pkg: pkgV2, Harness: "c05_match", Params: "mode=quotedwords", Shards: 4},
		}
		return Plan{Level: "exploration", Jobs: jobs}, true
	case "C06":
		return Plan{Level: "exploration", Jobs: []Job{
			{Pkg: pkgV2, Harness: "c06_tokens", Shards: pick(4, 16)},
			{Pkg: pkgV2, Harness: "c06_history", Shards: 2},
			{Pkg: pkgV2, Harness: "c06_match", Params: map[bool]string{false: "docs=431;positions=1", true: "docs=431;positions=12"}[th], Shards: 16},
			// CRLF line ends in text and edit (no word splits: a hyphen before CR LF is not a line-end hyphen)
			{Pkg: pkgV2, Harness: "c06_match", Params: map[bool]string{false: "eol=crlf;docs=150;positions=1;kinds=notice,date,marker", true: "eol=crlf;docs=431;positions=4;kinds=notice,date,marker,spelling,https"}[th], Shards: 16},
			// the document behind 4 000 / 16 000 / 65 000 pairwise different words
			{Pkg: pkgV2, Harness: "c06_match", Params: map[bool]string{false: "prefix=distinct;docs=3;maxbytes=1500;positions=2;kinds=notice,marker", true: "prefix=distinct;docs=8;maxbytes=3000;positions=3;kinds=notice,date,marker,spelling"}[th], Shards: 16},
			// the same documents with every paragraph on one line (lines of hundreds of words)
			{Pkg: pkgV2, Harness: "c06_match", Params: map[bool]string{false: "layout=unwrap;docs=200;positions=1;kinds=marker,split,notice", true: "layout=unwrap;docs=431;positions=6"}[th], Shards: 16},
			{Pkg: pkgV2, Harness: "c06_match", Params: map[bool]string{false: "docs=4;maxbytes=1200;positions=0;kinds=notice,marker,split,splitnotice", true: "docs=60;maxbytes=6000;positions=0"}[th], Shards: 16},
		}}, true
	case "C07":
		if th {
			// the two big families get their own workers (and deadlines)
			return Plan{Level: "exploration", Jobs: []Job{
				{Pkg: pkgV2, Harness: "c07_small", Shards: 16},
				{Pkg: pkgV2, Harness: "c07_corpus", Params: "t=0.8;families=scatter", Shards: 16},
				{Pkg: pkgV2, Harness: "c07_corpus", Params: "t=0.8;families=exact,edit1,periodic,truncate,concat,scenario", Shards: 16},
				{Pkg: pkgV2, Harness: "c07_corpus", Params: "t=0.8;families=edit2", Shards: 16},
				{Pkg: pkgV2, Harness: "c07_corpus", Params: "t=0.8;families=partnoise", Shards: 16},
				{Pkg: pkgV2, Harness: "c07_corpus", Params: "t=0.8;families=partnoise,exact,truncate;contexts=huge;ndocs=120", Shards: 16},
				{Pkg: pkgV2, Harness: "c07_corpus", Params: "t=0.8;families=exact,partnoise;contexts=pow2;ndocs=40", Shards: 16},
				{Pkg: pkgV2, Harness: "c07_corpus", Params: "t=0.8;families=exact,partnoise;contexts=distinct;ndocs=24", Shards: 16},
				{Pkg: pkgV2, Harness: "c07_corpus", Params: "t=0.8;families=clusters;ndocs=120", Shards: 16},
				{Pkg: pkgV2, Harness: "c07_corpus", Params: "t=0.876;families=headcut;ndocs=431", Shards: 16},
				{Pkg: pkgV2, Harness: "c07_corpus", Params: "t=0.8;families=headcut;ndocs=431", Shards: 16},
				{Pkg: pkgV2, Harness: "c07_corpus", Params: "t=0.933;families=headcut,exact;ndocs=431", Shards: 16},
			}}, true
		}
		return Plan{Level: "exploration", Jobs: []Job{
			{Pkg: pkgV2, Harness: "c07_small", Shards: pick(6, 16)},
			{Pkg: pkgV2, Harness: "c07_small", Params: fmt.Sprintf("vocab=accented;maxlen=%d", pick(6, 8)), Shards: pick(4, 16)},
			{Pkg: pkgV2, Harness: "c07_corpus", Params: "t=0.8;families=exact,edit1,periodic,truncate,concat,scenario", Shards: 16},
			{Pkg: pkgV2, Harness: "c07_corpus", Params: "t=0.8;docs=c07findings;families=scatter,periodic", Shards: 7},
			{Pkg: pkgV2, Harness: "c07_corpus", Params: "t=0.8;families=partnoise,exact,truncate;contexts=huge;ndocs=" + fmt.Sprint(pick(24, 120)), Shards: 16},
			{Pkg: pkgV2, Harness: "c07_corpus", Params: "t=0.8;families=exact,partnoise;contexts=pow2;ndocs=" + fmt.Sprint(pick(6, 40)), Shards: 16},
			{Pkg: pkgV2, Harness: "c07_corpus", Params: "t=0.8;families=exact;contexts=distinct;ndocs=8", Shards: 8},
			{Pkg: pkgV2, Harness: "c07_corpus", Params: "t=0.8;families=clusters;ndocs=" + fmt.Sprint(pick(24, 120)), Shards: 16},
			// thresholds that are not a whole percent, documents cut by about what they allow
			{Pkg: pkgV2, Harness: "c07_corpus", Params: "t=0.876;families=headcut;ndocs=431", Shards: 16},
			{Pkg: pkgV2, Harness: "c07_corpus", Params: "t=0.8;families=headcut;ndocs=60", Shards: 16},
		}}, true
	case "C08":
		return Plan{Level: "fault_enumeration", Jobs: []Job{
			{Pkg: pkgV2, Harness: "c08_chunks", Params: map[bool]string{false: "inputs=3;deviations=2", true: "inputs=10;deviations=2"}[th], Shards: pick(4, 16)},
			{Pkg: pkgV2, Harness: "c08_chunks", Params: map[bool]string{false: "inputs=1;deviations=3", true: "inputs=3;deviations=3"}[th], Shards: pick(4, 16)},
			{Pkg: pkgV2, Harness: "c08_pads", Shards: pick(6, 16)},
			{Pkg: pkgV2, Harness: "c08_faults", Shards: pick(6, 16)},
			{Pkg: pkgV2, Harness: "c08_faults", Params: "corpus=empty", Shards: pick(4, 16)},
			{Pkg: pkgV2, Harness: "c08_faults", Params: "corpus=one-empty-document", Shards: pick(4, 16)},
			{Pkg: pkgV2, Harness: "c08_stutter", Shards: pick(4, 16)},
			{Pkg: pkgV2, Harness: "c08_short", Shards: pick(4, 16)},
			// histories with AddContent between queries: MatchFrom and Match of one classifier must still agree
			{Pkg: pkgV2, Harness: "c04_replace", Shards: pick(4, 16)},
			// the same with every trace phase switched on (diagnostic code runs on the same paths)
			{Pkg: pkgV2, Harness: "c08_faults", Params: "trace=all", Shards: pick(6, 16)},
			{Pkg: pkgV2, Harness: "c08_chunks", Params: map[bool]string{false: "inputs=2;deviations=1;trace=all", true: "inputs=6;deviations=2;trace=all"}[th], Shards: pick(4, 16)},
		}}, true
	case "C09":
		jobs := []Job{
			{Pkg: pkgV2, Harness: "c09_frozen", Params: "mode=small", Shards: pick(4, 8)},
			{Pkg: pkgV2, Harness: "c09_frozen", Params: "mode=corpus", Shards: pick(8, 16)},
		}
		for _, sc := range []int{0, 1, 2, 3, 6, 7, 8, 9, 10} {
			jobs = append(jobs, Job{Pkg: pkgV2, Harness: "c09_sched", Instr: "v2coarse", Params: fmt.Sprintf("scenario=%d;threads=2;policy=delay;budget=2", sc), Shards: pick(2, 2)})
		}
		for _, sc := range map[bool][]int{false: {0, 1, 6, 7, 8}, true: {0, 1, 2, 3, 6, 7, 8, 9, 10}}[th] {
			// every yield site (no calibration filter), one delay
			jobs = append(jobs, Job{Pkg: pkgV2, Harness: "c09_sched", Instr: "v2coarse", Params: fmt.Sprintf("scenario=%d;threads=2;policy=delay;budget=1;maxsite=100000", sc), Shards: 2})
		}
		for _, sc := range map[bool][]int{false: {1, 7, 8}, true: {0, 1, 2, 3, 6, 7, 8, 9, 10}}[th] {
			// access profile: every field of the package's struct types and every package variable is a
			// monitored location; a write that is unordered with another call's access is a violation
			jobs = append(jobs, Job{Pkg: pkgV2, Harness: "c09_sched", Instr: "v2access", Params: fmt.Sprintf("scenario=%d;threads=2;policy=delay;budget=1;maxsite=100000;monitor=access", sc), Shards: 2})
		}
		// trace configurations (wildcard license patterns without a phase; everything traced to a no-op)
		for _, tr := range []string{"wildcard", "all"} {
			jobs = append(jobs, Job{Pkg: pkgV2, Harness: "c09_sched", Instr: "v2access", Params: fmt.Sprintf("scenario=1;threads=2;policy=delay;budget=1;maxsite=100000;monitor=access;trace=%s", tr), Shards: 2})
			jobs = append(jobs, Job{Pkg: pkgV2, Harness: "c09_sched", Instr: "v2coarse", Params: fmt.Sprintf("scenario=0;threads=2;policy=delay;budget=%d;trace=%s", pick(1, 2), tr), Shards: 2})
		}
		// two long inputs of equal length with a common 5 KB head and different documents behind it
		jobs = append(jobs, Job{Pkg: pkgV2, Harness: "c09_sched", Instr: "v2coarse", Params: fmt.Sprintf("scenario=11;threads=2;api=match;policy=delay;budget=%d", pick(1, 2)), Shards: pick(4, 8)})
		jobs = append(jobs, Job{Pkg: pkgV2, Harness: "c09_sched", Instr: "v2coarse", Params: "scenario=11;threads=2;policy=delay;budget=1", Shards: pick(2, 8)})
		// inputs with letters and quotes outside ASCII whose code points agree in their low byte
		jobs = append(jobs, Job{Pkg: pkgV2, Harness: "c09_sched", Instr: "v2access", Params: "scenario=15;threads=2;api=match;policy=delay;budget=0;maxsite=100000;monitor=access", Shards: 1})
		jobs = append(jobs, Job{Pkg: pkgV2, Harness: "c09_sched", Instr: "v2coarse", Params: "scenario=15;threads=2;policy=delay;budget=1", Shards: 4})
		// two calls on a 4 300-word document (sizes at which a library may take other paths or ration resources)
		jobs = append(jobs, Job{Pkg: pkgV2, Harness: "c09_sched", Instr: "v2coarse", Params: "scenario=13;threads=2;api=match;policy=delay;budget=1", Shards: pick(4, 8)})
		jobs = append(jobs, Job{Pkg: pkgV2, Harness: "c09_sched", Instr: "v2coarse", Params: "scenario=14;threads=2;policy=delay;budget=1", Shards: pick(2, 8)})
		jobs = append(jobs, Job{Pkg: pkgV2, Harness: "c09_access_corpus", Instr: "v2access", Shards: 16})
		if th {
			for sc := 0; sc < 4; sc++ {
				jobs = append(jobs, Job{Pkg: pkgV2, Harness: "c09_sched", Instr: "v2fine", Params: fmt.Sprintf("scenario=%d;threads=2;policy=delay;budget=2", sc), Shards: 4})
				jobs = append(jobs, Job{Pkg: pkgV2, Harness: "c09_sched", Instr: "v2coarse", Params: fmt.Sprintf("scenario=%d;threads=2;policy=preemption;budget=2", sc), Shards: 8})
			}
			for sc := 4; sc < 6; sc++ {
				jobs = append(jobs, Job{Pkg: pkgV2, Harness: "c09_sched", Instr: "v2coarse", Params: fmt.Sprintf("scenario=%d;threads=3;policy=delay;budget=2", sc), Shards: 8})
			}
		}
		jobs = append(jobs, Job{Pkg: pkgV2, Harness: "c09_race", Race: true, MaxProcs: 16, Shards: 1})
		return Plan{Level: "model_checking", Jobs: jobs}, true
	case "C10":
		jobs := []Job{}
		for sh := 0; sh <= 3; sh++ {
			ml, shards := pick(2, 3), pick(2, 8)
			if sh == 3 {
				ml, shards = pick(3, 4), 16
			}
			params := fmt.Sprintf("shape=%d;maxlen=%d", sh, ml)
			if sh == 3 && th {
				params += ";ts=three" // all strings of four symbols at three thresholds; three symbols at all nine below
			}
			jobs = append(jobs, Job{Pkg: pkgV2, Harness: "c10_total", Params: params, Shards: shards, MaxProcs: 2})
		}
		jobs = append(jobs, Job{Pkg: pkgV2, Harness: "c10_total", Params: fmt.Sprintf("shape=4;maxlen=%d", pick(1, 2)), Shards: pick(4, 16), MaxProcs: 2})
		if th {
			jobs = append(jobs, Job{Pkg: pkgV2, Harness: "c10_total", Params: "shape=3;maxlen=3;ts=all", Shards: 16, MaxProcs: 2})
		}
		jobs = append(jobs, Job{Pkg: pkgV2, Harness: "c10_window", Shards: 16})
		jobs = append(jobs, Job{Pkg: pkgV2, Harness: "c10_wordsets", Shards: 16})
		jobs = append(jobs, Job{Pkg: pkgV2, Harness: "c10_entities", Shards: 8})
		jobs = append(jobs, Job{Pkg: pkgV2, Harness: "c10_runes", Shards: 16})
		// every trace phase switched on (diagnostic code on the same paths)
		jobs = append(jobs, Job{Pkg: pkgV2, Harness: "c10_total", Params: fmt.Sprintf("shape=3;maxlen=%d;trace=all", pick(2, 3)), Shards: pick(4, 16), MaxProcs: 2})
		return Plan{Level: "exploration", Jobs: jobs}, true
	case "C11":
		return Plan{Level: "exploration", Jobs: []Job{
			{Pkg: pkgV2, Harness: "c11_tokens", Shards: pick(8, 16)},
			{Pkg: pkgV2, Harness: "c11_match", Params: "families=exact,scenario,recase" + map[bool]string{false: "", true: ",concat,edit1"}[th], Shards: 16},
			{Pkg: pkgV2, Harness: "c11_match", Params: "families=window;split=4", Shards: 16},
			{Pkg: pkgV2, Harness: "c11_match", Params: "families=longnotice;split=3", Shards: 8},
			{Pkg: pkgV2, Harness: "c11_match", Params: "families=hyphenwall,deeplines;split=3", Shards: 16},
			{Pkg: pkgV2, Harness: "c11_match", Params: "families=bigvocab;split=3", Shards: 16},
			{Pkg: pkgV2, Harness: "c11_match", Params: "families=exact,scenario,recase;shared=yes", Shards: 16},
		}}, true
	case "C12":
		return Plan{Level: "exploration", Jobs: []Job{
			{Pkg: pkgV2, Harness: "c12_trees", Shards: pick(4, 16)},
			{Pkg: pkgV2, Harness: "c12_assets", Shards: 1},
			{Pkg: pkgV2, Harness: "c12_history", Shards: pick(4, 16)},
			{Pkg: pkgExtCLI, Harness: "c12_default", Shards: pick(8, 16)},
		}}, true
	case "C13":
		var deep []Job
		if th {
			// pairs of values of up to three tokens with contexts of one token (the job below: pairs of
			// up to two tokens with contexts of up to two)
			deep = []Job{{Pkg: pkgSC, Harness: "c13_occurrence", Instr: "v1", Params: "pairtok=3;maxctx=1;maxtok=3", Shards: 16}}
		}
		return Plan{Level: "exploration", Jobs: append(deep, []Job{
			{Pkg: pkgSC, Harness: "c13_occurrence", Instr: "v1", Params: map[bool]string{false: "", true: "pairtok=2;maxctx=2"}[th], Shards: 16},
			{Pkg: pkgSC, Harness: "c13_addvalue", Instr: "v1", Shards: pick(8, 16)},
			{Pkg: pkgSC, Harness: "c13_history", Instr: "v1", Shards: pick(4, 16)},
			{Pkg: pkgSC, Harness: "c13_many", Instr: "v1", Shards: pick(8, 16)},
			{Pkg: pkgSC, Harness: "c13_twice", Instr: "v1", Shards: pick(8, 16)},
			{Pkg: pkgSC, Harness: "c13_longglue", Instr: "v1", Shards: 8},
		}...)}, true
	case "C14":
		var jobs []Job
		for _, sc := range map[bool][]int{false: {0, 1, 2, 3, 4, 7, 8, 9, 10}, true: {0, 1, 2, 3, 4, 5, 6, 7, 8, 9, 10, 11}}[th] {
			jobs = append(jobs, Job{Pkg: pkgSC, Harness: "c14_sched", Instr: "v1", Params: fmt.Sprintf("scenario=%d;policy=delay;budget=%d", sc, pick(3, 5)), Shards: pick(2, 8)})
		}
		jobs = append(jobs, Job{Pkg: pkgSC, Harness: "c14_sched", Instr: "v1", Params: "scenario=0;precomputed=yes;policy=delay;budget=" + fmt.Sprint(pick(3, 5)), Shards: pick(2, 8)})
		// scheduling points after operations too (between a release and the code that follows it)
		for _, sc := range map[bool][]int{false: {0, 1, 3, 9}, true: {0, 1, 2, 3, 4, 7, 8, 9, 10, 11}}[th] {
			jobs = append(jobs, Job{Pkg: pkgSC, Harness: "c14_sched", Instr: "v1", Params: fmt.Sprintf("scenario=%d;postyield=yes;policy=delay;budget=%d", sc, pick(2, 3)), Shards: pick(2, 8)})
		}
		if th {
			for _, sc := range []int{0, 1, 2, 3, 4, 7, 9, 10} {
				jobs = append(jobs, Job{Pkg: pkgSC, Harness: "c14_sched", Instr: "v1", Params: fmt.Sprintf("scenario=%d;policy=preemption;budget=1;split=10", sc), Shards: 16})
			}
			jobs = append(jobs, Job{Pkg: pkgSC, Harness: "c14_sched", Instr: "v1", Params: "scenario=0;policy=delay;budget=2;accessyields=yes", Shards: 8})
			// deeper preemption bounds where the scenario is small enough
			for _, sc := range []int{3, 7} {
				jobs = append(jobs, Job{Pkg: pkgSC, Harness: "c14_sched", Instr: "v1", Params: fmt.Sprintf("scenario=%d;policy=preemption;budget=3;split=10", sc), Shards: 16})
			}
			for _, sc := range []int{1, 2, 9, 10} {
				jobs = append(jobs, Job{Pkg: pkgSC, Harness: "c14_sched", Instr: "v1", Params: fmt.Sprintf("scenario=%d;policy=preemption;budget=2;split=10", sc), Shards: 16})
			}
		}
		jobs = append(jobs, Job{Pkg: pkgSC, Harness: "c14_race", Race: true, MaxProcs: 16})
		// many known values that all match one text (fan-out beyond any pool or limit inside the library)
		jobs = append(jobs, Job{Pkg: pkgSC, Harness: "c14_race", Params: "values=70", Race: true, MaxProcs: 16})
		jobs = append(jobs, Job{Pkg: pkgSC, Harness: "c14_sched", Instr: "v1", Params: "scenario=12;values=70;policy=delay;budget=0"})
		// queries of more than 4 KB, every query repeated after the join
		jobs = append(jobs, Job{Pkg: pkgSC, Harness: "c14_sched", Instr: "v1", Params: fmt.Sprintf("scenario=13;policy=delay;budget=%d", pick(2, 3)), Shards: pick(2, 8)})
		jobs = append(jobs, Job{Pkg: pkgSC, Harness: "c14_sched", Instr: "v1", Params: fmt.Sprintf("scenario=14;policy=delay;budget=%d", pick(1, 2)), Shards: pick(2, 8)})
		jobs = append(jobs, Job{Pkg: pkgSC, Harness: "c14_sched", Instr: "v1", Params: fmt.Sprintf("scenario=0;reprobe=yes;policy=delay;budget=%d", pick(2, 3)), Shards: pick(2, 8)})
		// the search-set package instrumented as well (fields of the shared sets are monitored locations)
		for _, sc := range []int{0, 4} {
			jobs = append(jobs, Job{Pkg: pkgSC, Harness: "c14_sched", Instr: "v1deep", Params: fmt.Sprintf("scenario=%d;policy=delay;budget=%d", sc, pick(1, 2)), Shards: pick(2, 8)})
		}
		jobs = append(jobs, Job{Pkg: pkgSC, Harness: "c14_sched", Instr: "v1deep", Params: fmt.Sprintf("scenario=24;policy=delay;budget=%d", pick(1, 2)), Shards: pick(2, 8)})
		// a registered value of more than 64 KiB that is also the query
		jobs = append(jobs, Job{Pkg: pkgSC, Harness: "c14_sched", Instr: "v1", Params: fmt.Sprintf("scenario=17;values=1;valuebytes=66000;policy=delay;budget=%d", pick(1, 2)), Shards: pick(2, 8)})
		jobs = append(jobs, Job{Pkg: pkgSC, Harness: "c14_sched", Instr: "v1", Params: "scenario=18;values=1;valuebytes=66000;policy=delay;budget=1", Shards: pick(2, 8)})
		jobs = append(jobs, Job{Pkg: pkgSC, Harness: "c14_sched", Instr: "v1", Params: fmt.Sprintf("scenario=23;values=1;valuebytes=4600;reprobe=yes;policy=delay;budget=%d", pick(2, 3)), Shards: 16})
		jobs = append(jobs, Job{Pkg: pkgSC, Harness: "c14_sched", Instr: "v1", Params: "scenario=21;values=1;valuebytes=140000;policy=delay;budget=1", Shards: pick(2, 8)})
		jobs = append(jobs, Job{Pkg: pkgSC, Harness: "c14_sched", Instr: "v1", Params: fmt.Sprintf("scenario=22;values=1;valuebytes=140000;policy=delay;budget=%d", pick(1, 2)), Shards: pick(2, 8)})
		// a 4.6 KB value added while a query runs
		jobs = append(jobs, Job{Pkg: pkgSC, Harness: "c14_sched", Instr: "v1", Params: fmt.Sprintf("scenario=19;policy=delay;budget=%d", pick(2, 4)), Shards: pick(2, 8)})
		jobs = append(jobs, Job{Pkg: pkgSC, Harness: "c14_sched", Instr: "v1", Params: fmt.Sprintf("scenario=20;policy=delay;budget=%d", pick(1, 3)), Shards: pick(2, 8)})
		// values that are not valid UTF-8
		jobs = append(jobs, Job{Pkg: pkgSC, Harness: "c14_sched", Instr: "v1", Params: fmt.Sprintf("scenario=15;policy=delay;budget=%d", pick(2, 4)), Shards: pick(2, 8)})
		jobs = append(jobs, Job{Pkg: pkgSC, Harness: "c14_sched", Instr: "v1", Params: fmt.Sprintf("scenario=16;policy=delay;budget=%d", pick(2, 3)), Shards: pick(2, 8)})
		// more than a megabyte of registered text (2 values of 540 KB), small queries
		jobs = append(jobs, Job{Pkg: pkgSC, Harness: "c14_sched", Instr: "v1", Params: fmt.Sprintf("scenario=0;values=2;valuebytes=540000;policy=delay;budget=%d", pick(1, 1)), Shards: pick(8, 16)})
		jobs = append(jobs, Job{Pkg: pkgExtV1, Harness: "c14_license_sched", Instr: "v1", Shards: pick(4, 16)})
		jobs = append(jobs, Job{Pkg: pkgExtV1, Harness: "c14_license_sched", Instr: "v1", Params: "scenario=1;budget=" + fmt.Sprint(pick(1, 2)), Shards: pick(4, 16)})
		jobs = append(jobs, Job{Pkg: pkgExtV1, Harness: "c14_license_race", Race: true, MaxProcs: 16})
		return Plan{Level: "model_checking", Jobs: jobs}, true
	case "C15":
		return Plan{Level: "exploration", Jobs: []Job{
			{Pkg: pkgExtV1, Harness: "c15_archive", Instr: "v1", Params: "mode=singles", Shards: 16},
			{Pkg: pkgExtV1, Harness: "c15_archive", Instr: "v1", Params: "mode=tuples", Shards: 16},
			{Pkg: pkgExtV1, Harness: "c15_archive", Instr: "v1", Params: "mode=many", Shards: 5},
			{Pkg: pkgExtV1, Harness: "c15_archive", Instr: "v1", Params: "mode=counts", Shards: 8},
			{Pkg: pkgExtV1, Harness: "c15_archive", Instr: "v1", Params: "mode=offsets", Shards: 16},
			{Pkg: pkgExtV1, Harness: "c15_history", Instr: "v1", Shards: pick(4, 16)},
		}}, true
	case "C16":
		return Plan{Level: "exploration", Jobs: []Job{
			{Pkg: pkgExtV1, Harness: "c16_corpus", Instr: "v1", Shards: 16},
			{Pkg: pkgExtV1, Harness: "c16_corpus", Instr: "v1", Params: "t=0.9;variants=2", Shards: 4},
			{Pkg: pkgExtV1, Harness: "c16_corpus", Instr: "v1", Params: "t=0.99;variants=2", Shards: 4},
			// (a threshold below the default: thorough tier; its variant count differs so that the two tiers' job lists stay distinct)
			{Pkg: pkgExtV1, Harness: "c16_corpus", Instr: "v1", Params: "t=0.5;variants=" + fmt.Sprint(pick(1, 2)), Shards: pick(2, 4)},
			{Pkg: pkgExtV1, Harness: "c16_threshold", Instr: "v1", Shards: 16},
		}}, true
	case "C17":
		return Plan{Level: "exploration", Jobs: []Job{
			{Pkg: pkgTok, Harness: "c17_tokens", Shards: pick(4, 16)},
			{Pkg: pkgTok, Harness: "c17_tokens", Params: "alphabet=classes", Shards: pick(4, 16)},
			{Pkg: pkgTok, Harness: "c17_longwords", Shards: pick(4, 12)},
			{Pkg: pkgTok, Harness: "c17_runes", Shards: 8},
			{Pkg: pkgTok, Harness: "c17_longtext", Shards: 8},
			{Pkg: pkgSS, Harness: "c17_candidates", Shards: 16},
			{Pkg: pkgSS, Harness: "c17_candidates", Params: "alphabet=ab", Shards: 16},
			// other granularities (window sizes) than the default 3: steps of more than one token
			{Pkg: pkgSS, Harness: "c17_candidates", Params: "granularity=4", Shards: 16},
			{Pkg: pkgSS, Harness: "c17_candidates", Params: "granularity=5", Shards: 16},
			{Pkg: pkgSS, Harness: "c17_candidates", Params: "granularity=2", Shards: 8},
			{Pkg: pkgSS, Harness: "c17_candidates", Params: "granularity=8;alphabet=ab", Shards: 16},
			{Pkg: pkgSS, Harness: "c17_large", Shards: 16},
		}}, true
	case "C18":
		return Plan{Level: "exploration", Jobs: []Job{
			{Pkg: pkgCP, Harness: "c18_lexer", Shards: 16, MaxProcs: 2},
			{Pkg: pkgCP, Harness: "c18_lexer", Params: fmt.Sprintf("text=unicode;maxlen=%d", pick(4, 5)), Shards: 16, MaxProcs: 2},
			{Pkg: pkgCP, Harness: "c18_lexer", Params: fmt.Sprintf("text=aliases;maxlen=%d", pick(4, 5)), Shards: 16, MaxProcs: 2},
			{Pkg: pkgCP, Harness: "c18_chunks", Shards: pick(2, 8), MaxProcs: 2},
			{Pkg: pkgCP, Harness: "c18_long", Shards: 8, MaxProcs: 2},
			{Pkg: pkgCP, Harness: "c18_lines", Shards: 9, MaxProcs: 2},
			{Pkg: pkgCP, Harness: "c18_history", Shards: 2},
			{Pkg: pkgCP, Harness: "c18_columns", Shards: 8, MaxProcs: 2},
		}}, true
	case "C19":
		var jobs []Job
		type cfg struct{ files, tasks int }
		cfgs := []cfg{{1, 1}, {2, 1}, {2, 2}, {3, 2}}
		if th {
			cfgs = append(cfgs, cfg{3, 1}, cfg{3, 3}, cfg{4, 2}, cfg{4, 3})
		}
		for i, cf := range cfgs {
			h := "no"
			if i%2 == 1 {
				h = "yes"
			}
			jobs = append(jobs, Job{Pkg: pkgBackend, Harness: "c19_pool", Instr: "backend", Params: fmt.Sprintf("files=%d;tasks=%d;headers=%s;policy=preemption;budget=%d", cf.files, cf.tasks, h, pick(2, 3)), Shards: pick(2, 8)})
		}
		// unreadable files first / everywhere (error channel and token handling)
		for _, v := range []string{"files=2;tasks=1;rot=1", "files=3;tasks=2;rot=1", "files=3;tasks=1;missing=all", "files=3;tasks=2;missing=most", "files=4;tasks=3;missing=all"} {
			jobs = append(jobs, Job{Pkg: pkgBackend, Harness: "c19_pool", Instr: "backend", Params: v + fmt.Sprintf(";headers=yes;policy=preemption;budget=%d", pick(1, 2)), Shards: pick(2, 8)})
		}
		// scheduling points after operations too (a worker preempted between handing its token back and
		// what it does next): files > tasks so that tokens are reused
		for _, v := range map[bool][]string{false: {"files=2;tasks=1", "files=3;tasks=2"}, true: {"files=2;tasks=1", "files=3;tasks=1", "files=3;tasks=2", "files=4;tasks=2"}}[th] {
			jobs = append(jobs, Job{Pkg: pkgBackend, Harness: "c19_pool", Instr: "backend", Params: v + fmt.Sprintf(";headers=yes;postyield=yes;policy=preemption;budget=%d", pick(1, 2)), Shards: pick(2, 8)})
		}
		if th {
			// every interleaving at all (no preemption bound) for the smallest configurations
			jobs = append(jobs, Job{Pkg: pkgBackend, Harness: "c19_pool", Instr: "backend", Params: "files=1;tasks=1;headers=no;policy=preemption;budget=1000000", Shards: 1})
			jobs = append(jobs, Job{Pkg: pkgBackend, Harness: "c19_pool", Instr: "backend", Params: "files=2;tasks=1;headers=yes;policy=preemption;budget=1000000;split=10", Shards: 16})
			jobs = append(jobs, Job{Pkg: pkgBackend, Harness: "c19_pool", Instr: "backend", Params: "files=2;tasks=2;headers=no;policy=preemption;budget=1000000;split=10", Shards: 16})
		}
		jobs = append(jobs, Job{Pkg: pkgExtCLI, Harness: "c19_cli", Shards: pick(9, 16), MaxProcs: 2})
		jobs = append(jobs, Job{Pkg: pkgResults, Harness: "c19_jsontext", Shards: pick(4, 16)})
		return Plan{Level: "model_checking", Jobs: jobs}, true
	case "C20":
		return Plan{Level: "model_checking", Jobs: []Job{
			{Pkg: pkgSets, Harness: "c20_stringset", Params: "observe=path", Shards: pick(4, 8)},
			{Pkg: pkgSets, Harness: "c20_stringset", Params: "observe=end", Shards: pick(4, 8)},
			{Pkg: pkgSets, Harness: "c20_stringset", Params: "observe=path;universe=wide", Shards: pick(4, 8)},
			{Pkg: pkgIntSets, Harness: "c20_intset", Params: "observe=path", Shards: pick(4, 8)},
			{Pkg: pkgIntSets, Harness: "c20_intset", Params: "observe=end", Shards: pick(4, 8)},
			{Pkg: pkgIntSets, Harness: "c20_intset", Params: "observe=path;universe=wide", Shards: pick(4, 8)},
			{Pkg: pkgPQ, Harness: "c20_queue", Params: "order=min;setindex=yes"},
			{Pkg: pkgPQ, Harness: "c20_queue", Params: "order=max;setindex=yes"},
			{Pkg: pkgPQ, Harness: "c20_queue", Params: "order=max;setindex=no"},
			{Pkg: pkgPQ, Harness: "c20_queue_long", Shards: 16},
			{Pkg: pkgPQ, Harness: "c20_queues", Shards: 16},
			{Pkg: pkgSets, Harness: "c20_stringset", Params: "family=long", Shards: 8},
			{Pkg: pkgSets, Harness: "c20_stringset", Params: "family=histories", Shards: 8},
			{Pkg: pkgIntSets, Harness: "c20_intset", Params: "family=histories", Shards: 8},
			{Pkg: pkgIntSets, Harness: "c20_intset", Params: "family=long", Shards: 8},
		}}, true
	}
	return Plan{}, false
}
