// vcheck runs the checks of one property: it regenerates the overlay (harness
// files + instrumented sources) from /repo's current working tree, builds the
// test binaries, runs the harness workers, merges their reports, applies the
// known-findings file and writes /verif/evidence/<id>.json.
package main

import (
	"bufio"
	"bytes"
	"crypto/sha1"
	"encoding/json"
	"flag"
	"fmt"
	"os"
	"os/exec"
	"path/filepath"
	"sort"
	"strconv"
	"strings"
	"sync"
	"time"

	"verifh/vrep"
)

const (
	verifDir = "/verif"
	hDir     = "/verif/h"
)

// repoDir is the tree under test. Registered checks always use /repo; VERIF_REPO lets a developer
// run (seedcheck.sh) point the same machinery at a scratch worktree while long runs use /repo.
var repoDir = func() string {
	if r := os.Getenv("VERIF_REPO"); r != "" {
		return r
	}
	return "/repo"
}()

// altModfile writes a go.mod whose replace directives point at repoDir (only for VERIF_REPO runs).
func altModfile(work string) (string, error) {
	if repoDir == "/repo" {
		return "", nil
	}
	b, err := os.ReadFile(filepath.Join(hDir, "go.mod"))
	if err != nil {
		return "", err
	}
	s := strings.ReplaceAll(string(b), "=> /repo/v2", "=> "+repoDir+"/v2")
	s = strings.ReplaceAll(s, "=> /repo\n", "=> "+repoDir+"\n")
	mf := filepath.Join(work, "alt.mod")
	if err := os.WriteFile(mf, []byte(s), 0o644); err != nil {
		return "", err
	}
	sum, _ := os.ReadFile(filepath.Join(hDir, "go.sum"))
	os.WriteFile(filepath.Join(work, "alt.sum"), sum, 0o644)
	return mf, nil
}

var (
	altOnce sync.Once
	altPath string
)

func goEnvFor(work string) []string {
	env := append([]string(nil), goEnv...)
	// written once per vcheck run: workers start concurrently and must not see it half written
	altOnce.Do(func() { altPath, _ = altModfile(work) })
	if mf := altPath; mf != "" {
		env[0] = "GOFLAGS=-mod=mod -modfile=" + mf
		env = append(env, "VERIF_MODFILE="+mf, "VERIF_REPO="+repoDir)
	}
	return env
}

// Job is one harness invocation (possibly sharded over several processes).
type Job struct {
	Pkg       string  // import path of the package whose test binary hosts the harness
	Harness   string  // registered harness name
	Params    string  // k=v;k=v
	Shards    int     // number of worker processes
	Race      bool    // build with -race, free-running companion pass
	Instr     string  // instrumentation profile ("" = none)
	DeadlineS float64 // internal deadline per worker (0: tier default)
	MaxProcs  int     // GOMAXPROCS for the worker (0: 1)
	MemMB     int     // virtual memory cap (0: default)
}

// Plan is the set of jobs of one property and tier.
type Plan struct {
	Level string
	Jobs  []Job
}

type buildKey struct {
	pkg, instr string
	race       bool
}

var goEnv = []string{"GOFLAGS=-mod=mod", "GOPROXY=off", "GOSUMDB=off", "GOTOOLCHAIN=local"}

func main() {
	if len(os.Args) < 2 {
		fmt.Fprintln(os.Stderr, "usage: vcheck <Cxx> [--tier quick|thorough] | vcheck replay <file> | vcheck list")
		os.Exit(2)
	}
	switch os.Args[1] {
	case "replay":
		os.Exit(replay(os.Args[2]))
	case "warm":
		os.Exit(warm())
	case "list":
		for _, id := range propertyIDs() {
			fmt.Println(id)
		}
		return
	}
	id := os.Args[1]
	fs := flag.NewFlagSet("vcheck", flag.ExitOnError)
	tier := fs.String("tier", "", "quick|thorough")
	only := fs.String("only", "", "run only harnesses whose name contains this")
	keep := fs.Bool("keep", false, "keep work directory")
	fs.Parse(os.Args[2:])
	if *tier == "" {
		*tier = os.Getenv("VERIF_TIER")
	}
	if *tier == "" {
		*tier = "quick"
	}
	os.Exit(runCheck(id, *tier, *only, *keep))
}

func seed() int64 {
	s, _ := strconv.ParseInt(os.Getenv("VERIF_SEED"), 10, 64)
	return s
}

func fatal(code int, f string, a ...interface{}) int {
	fmt.Fprintf(os.Stderr, "vcheck: "+f+"\n", a...)
	return code
}

// ---------------------------------------------------------------- overlay

// makeOverlay writes overlay.json into work: every file under
// /verif/harness/<dir>/<name>.go is added to /repo/<dir> as
// zz_verif_<name>_test.go; instrumented replacements are added per profile.
func makeOverlay(work, instr string) (string, error) {
	repl := map[string]string{}
	root := filepath.Join(verifDir, "harness")
	err := filepath.Walk(root, func(p string, info os.FileInfo, err error) error {
		if err != nil || info.IsDir() || !strings.HasSuffix(p, ".go") {
			return err
		}
		rel, _ := filepath.Rel(root, p)
		dir, base := filepath.Split(rel)
		name := strings.TrimSuffix(base, ".go")
		repl[filepath.Join(repoDir, dir, "zz_verif_"+name+"_test.go")] = p
		return nil
	})
	if err != nil {
		return "", err
	}
	// go-diff clock seam: time.Now() in diff.go reads a frozen harness clock,
	// so the 1 s DiffTimeout never fires and results do not depend on load.
	if src, err := goDiffFile(work); err == nil {
		b, err := os.ReadFile(src)
		if err != nil {
			return "", err
		}
		patched := bytes.ReplaceAll(b, []byte("time.Now()"), []byte("verifNow()"))
		patched = append(patched, []byte("\n// verifNow is the harness clock (overlay, tag-free because the overlay itself is the guard).\nfunc verifNow() time.Time { return time.Unix(1, 0) }\n")...)
		dst := filepath.Join(work, "godiff_diff.go")
		if err := os.WriteFile(dst, patched, 0o644); err != nil {
			return "", err
		}
		repl[src] = dst
	} else {
		return "", err
	}
	for _, prof := range []string{"v2globals", instr} {
		if prof == "" {
			continue
		}
		out := filepath.Join(work, "instr_"+prof)
		os.MkdirAll(out, 0o755)
		cmd := exec.Command(filepath.Join(hDir, "bin", "vinstr"), "-profile", prof, "-out", out)
		cmd.Dir = hDir
		cmd.Env = append(os.Environ(), goEnvFor(work)...)
		b, err := cmd.CombinedOutput()
		if err != nil {
			return "", fmt.Errorf("vinstr %s: %v\n%s", prof, err, b)
		}
		// vinstr prints "orig\tnew" lines
		sc := bufio.NewScanner(bytes.NewReader(b))
		for sc.Scan() {
			f := strings.Split(sc.Text(), "\t")
			if len(f) == 2 && strings.HasPrefix(f[0], "/") {
				repl[f[0]] = f[1]
			}
		}
	}
	ov := map[string]interface{}{"Replace": repl}
	b, _ := json.MarshalIndent(ov, "", " ")
	path := filepath.Join(work, "overlay_"+instr+".json")
	return path, os.WriteFile(path, b, 0o644)
}

func goDiffFile(work string) (string, error) {
	cmd := exec.Command("go", "list", "-f", "{{.Dir}}", "github.com/sergi/go-diff/diffmatchpatch")
	cmd.Dir = hDir
	cmd.Env = append(os.Environ(), goEnvFor(work)...)
	b, err := cmd.Output()
	if err != nil {
		return "", fmt.Errorf("go list go-diff: %v", err)
	}
	return filepath.Join(strings.TrimSpace(string(b)), "diff.go"), nil
}

func build(work string, k buildKey, overlay string) (string, error) {
	name := strings.NewReplacer("/", "_", ".", "_").Replace(k.pkg)
	if k.race {
		name += "_race"
	}
	if k.instr != "" {
		name += "_" + k.instr
	}
	out := filepath.Join(work, name+".test")
	args := []string{"test", "-c", "-tags", "verif", "-vet=off", "-overlay", overlay, "-o", out}
	if k.race {
		args = append(args, "-race")
	}
	args = append(args, k.pkg)
	cmd := exec.Command("go", args...)
	cmd.Dir = hDir
	cmd.Env = append(os.Environ(), goEnvFor(work)...)
	b, err := cmd.CombinedOutput()
	if err != nil {
		return "", fmt.Errorf("build %s: %v\n%s", k.pkg, err, b)
	}
	return out, nil
}

// ---------------------------------------------------------------- findings

type finding struct {
	Property, Key, What string
}

// known_findings.txt: lines
//
//	finding: property=<id> key=<key> :: <what fails>
//	fixed: property=<id> <commit> <what failed>     (suppresses nothing)
func loadFindings() ([]finding, error) {
	b, err := os.ReadFile(filepath.Join(verifDir, "known_findings.txt"))
	if os.IsNotExist(err) {
		return nil, nil
	}
	if err != nil {
		return nil, err
	}
	var out []finding
	for _, l := range strings.Split(string(b), "\n") {
		l = strings.TrimSpace(l)
		if !strings.HasPrefix(l, "finding:") {
			continue
		}
		rest := strings.TrimSpace(strings.TrimPrefix(l, "finding:"))
		what := ""
		if i := strings.Index(rest, " :: "); i >= 0 {
			what = rest[i+4:]
			rest = rest[:i]
		}
		f := finding{What: what}
		for _, kv := range strings.Fields(rest) {
			if strings.HasPrefix(kv, "property=") {
				f.Property = kv[9:]
			} else if strings.HasPrefix(kv, "key=") {
				f.Key = kv[4:]
			}
		}
		if f.Property == "" || f.Key == "" {
			return nil, fmt.Errorf("known_findings.txt: malformed line %q", l)
		}
		out = append(out, f)
	}
	return out, nil
}

// ---------------------------------------------------------------- running

type jobResult struct {
	job     Job
	reports []*vrep.Report
	errs    []string
}

func runWorker(bin string, id, tier string, j Job, shard int, out string, deadline float64) (string, error) {
	cmd := exec.Command(bin, "-test.run", "^TestVerif$", "-test.timeout", "0", "-test.count", "1")
	cmd.Dir = filepath.Dir(bin)
	procs := j.MaxProcs
	if procs == 0 {
		procs = 1
	}
	cmd.Env = append(append(os.Environ(), goEnvFor(filepath.Dir(out))[1:]...),
		"VERIF_PROPERTY="+id, "VERIF_HARNESS="+j.Harness, "VERIF_TIER="+tier,
		"VERIF_SHARD="+strconv.Itoa(shard), "VERIF_SHARDS="+strconv.Itoa(j.Shards),
		"VERIF_OUT="+out, "VERIF_PARAMS="+withInstr(j), "VERIF_REPLAY=",
		"VERIF_DEADLINE_S="+strconv.FormatFloat(deadline, 'f', 1, 64),
		"VERIF_SEED="+strconv.FormatInt(seed(), 10),
		"GOMAXPROCS="+strconv.Itoa(procs), "GORACE=halt_on_error=0 exitcode=0 log_path="+out+".race")
	var buf bytes.Buffer
	cmd.Stdout, cmd.Stderr = &buf, &buf
	if err := cmd.Start(); err != nil {
		return "", err
	}
	// harnesses stop by themselves at the internal deadline (between executions); a worker that is
	// still there after twice the deadline plus two minutes is stuck INSIDE one execution
	done := make(chan error, 1)
	go func() { done <- cmd.Wait() }()
	select {
	case err := <-done:
		return buf.String(), err
	case <-time.After(time.Duration(2*deadline+120) * time.Second):
		cmd.Process.Kill()
		<-done
		return buf.String() + "\nWORKER-HUNG: killed after " + fmt.Sprint(2*deadline+120) + " s", errWorkerHung
	}
}

var errWorkerHung = fmt.Errorf("worker hung")

func runCheck(id, tier, only string, keep bool) int {
	start := time.Now()
	plan, ok := plans(id, tier)
	if !ok {
		return fatal(2, "unknown property %s", id)
	}
	if only != "" {
		var js []Job
		for _, j := range plan.Jobs {
			if strings.Contains(j.Harness+"["+j.Params+"]", only) {
				js = append(js, j)
			}
		}
		plan.Jobs = js
	}
	findings, err := loadFindings()
	if err != nil {
		return fatal(2, "%v", err)
	}
	work := filepath.Join(verifDir, ".work", fmt.Sprintf("%s-%s-%d", id, tier, os.Getpid()))
	os.MkdirAll(work, 0o755)
	if !keep {
		defer os.RemoveAll(work)
	}
	// builds
	overlays := map[string]string{}
	overlayErr := map[string]error{}
	bins := map[buildKey]string{}
	var bmu sync.Mutex
	var keys []buildKey
	seen := map[buildKey]bool{}
	for _, j := range plan.Jobs {
		k := buildKey{j.Pkg, j.Instr, j.Race}
		if !seen[k] {
			seen[k] = true
			keys = append(keys, k)
		}
		if _, ok := overlays[j.Instr]; !ok {
			ov, err := makeOverlay(work, j.Instr)
			if err != nil {
				// e.g. INSTRUMENTER-UNSUPPORTED for one profile: the jobs that need it fail, the others
				// (plain and -race binaries) still run and may decide
				overlayErr[j.Instr] = err
				ov = ""
			}
			overlays[j.Instr] = ov
		}
	}
	var bwg sync.WaitGroup
	buildErr := map[buildKey]error{}
	for _, k := range keys {
		if err := overlayErr[k.instr]; err != nil {
			buildErr[k] = fmt.Errorf("overlay: %v", err)
			continue
		}
		bwg.Add(1)
		go func(k buildKey) {
			defer bwg.Done()
			bin, err := build(work, k, overlays[k.instr])
			bmu.Lock()
			defer bmu.Unlock()
			if err != nil {
				buildErr[k] = err
				return
			}
			bins[k] = bin
		}(k)
	}
	bwg.Wait()
	if len(buildErr) == len(keys) && len(keys) > 0 {
		for _, err := range buildErr {
			return fatal(2, "%v", err)
		}
	}
	buildS := time.Since(start).Seconds()

	// workers
	type unit struct {
		ji, shard int
	}
	var units []unit
	for ji, j := range plan.Jobs {
		if j.Shards < 1 {
			plan.Jobs[ji].Shards = 1
		}
		for s := 0; s < plan.Jobs[ji].Shards; s++ {
			units = append(units, unit{ji, s})
		}
	}
	// rotate visiting order by seed (no random choice exists in the deciding step)
	if n := len(units); n > 0 {
		r := int(seed() % int64(n))
		if r < 0 {
			r += n
		}
		units = append(units[r:], units[:r]...)
	}
	results := make([]jobResult, len(plan.Jobs))
	for i := range results {
		results[i].job = plan.Jobs[i]
	}
	defDeadline := 75.0
	if tier == "thorough" {
		defDeadline = 900
	}
	if v := os.Getenv("VERIF_DEADLINE_S"); v != "" {
		defDeadline, _ = strconv.ParseFloat(v, 64)
	}
	sem := make(chan struct{}, 16)
	var wg sync.WaitGroup
	var mu sync.Mutex
	for _, u := range units {
		wg.Add(1)
		sem <- struct{}{}
		go func(u unit) {
			defer wg.Done()
			defer func() { <-sem }()
			j := plan.Jobs[u.ji]
			if err := buildErr[buildKey{j.Pkg, j.Instr, j.Race}]; err != nil {
				mu.Lock()
				if u.shard == 0 {
					results[u.ji].errs = append(results[u.ji].errs, fmt.Sprintf("%s: binary not built: %v", j.Harness, err))
				}
				mu.Unlock()
				return
			}
			out := filepath.Join(work, fmt.Sprintf("out_%d_%d.json", u.ji, u.shard))
			dl := j.DeadlineS
			if dl == 0 {
				dl = defDeadline
			}
			log, err := runWorker(bins[buildKey{j.Pkg, j.Instr, j.Race}], id, tier, j, u.shard, out, dl)
			mu.Lock()
			defer mu.Unlock()
			b, rerr := os.ReadFile(out)
			if err == errWorkerHung && (j.Race || j.Instr != "") {
				// a concurrency job whose worker is stuck inside one execution: the code under test blocks
				// (on something the scheduler does not model, or for real in the free-running pass)
				key := "hang:" + j.Harness + "[" + j.Params + "]"
				rep := vrep.Report{Property: id, Harness: j.Harness, Shard: u.shard, NViolations: 1, Bounds: map[string]interface{}{}}
				rep.Violations = append(rep.Violations, vrep.Violation{Key: key, What: "the worker got stuck inside one execution and was killed (deadlock or blocking that never ends): " + tail(log, 6),
					Replay: vrep.ReplayFile{Property: id, Package: j.Pkg, Harness: j.Harness, Tier: tier, Params: parseParams(j.Params), Observation: tail(log, 60), Key: key, Race: j.Race, Whole: true}})
				b, _ = json.Marshal(rep)
				rerr = nil
			}
			if rerr != nil && j.Race {
				// the free-running worker died before reporting: a Go runtime fatal error about
				// concurrent map access, or a panic escaping from a goroutine the library started,
				// is a finding of the pass, not an infrastructure failure
				if what := crashFinding(log); what != "" {
					key := "race:crash:" + what
					rep := vrep.Report{Property: id, Harness: j.Harness, Shard: u.shard, NViolations: 1, Bounds: map[string]interface{}{}}
					rep.Violations = append(rep.Violations, vrep.Violation{Key: key, What: "free-running pass crashed: " + what,
						Replay: vrep.ReplayFile{Property: id, Package: j.Pkg, Harness: j.Harness, Tier: tier, Params: parseParams(j.Params), Observation: tail(log, 60), Key: key, Race: true}})
					b, _ = json.Marshal(rep)
					rerr = nil
				}
			}
			if rerr != nil {
				results[u.ji].errs = append(results[u.ji].errs, fmt.Sprintf("%s shard %d: no report (%v)\n%s", j.Harness, u.shard, err, tail(log, 40)))
				return
			}
			var rep vrep.Report
			if jerr := json.Unmarshal(b, &rep); jerr != nil {
				results[u.ji].errs = append(results[u.ji].errs, fmt.Sprintf("%s shard %d: bad report: %v", j.Harness, u.shard, jerr))
				return
			}
			if rb, e := os.ReadFile(out + ".race"); e == nil && len(rb) > 0 {
				_ = rb
			}
			// race detector logs: log_path.<pid>
			if m, _ := filepath.Glob(out + ".race.*"); len(m) > 0 {
				for _, f := range m {
					rb, _ := os.ReadFile(f)
					if bytes.Contains(rb, []byte("DATA RACE")) {
						key := "race:" + raceKey(string(rb))
						rep.NViolations++
						rep.Violations = append(rep.Violations, vrep.Violation{Key: key, What: "Go race detector report in free-running pass: " + raceSummary(string(rb)),
							Replay: vrep.ReplayFile{Property: id, Package: j.Pkg, Harness: j.Harness, Tier: tier, Params: parseParams(j.Params), Observation: tail(string(rb), 60), Key: key, Race: true}})
					}
				}
			}
			if rep.Fatal != "" {
				results[u.ji].errs = append(results[u.ji].errs, fmt.Sprintf("%s shard %d: %s\n%s", j.Harness, u.shard, rep.Fatal, tail(log, 40)))
			}
			results[u.ji].reports = append(results[u.ji].reports, &rep)
		}(u)
	}
	wg.Wait()

	// merge
	ev := merge(id, tier, plan, results, buildS, start)
	var infraErrs []string
	for _, r := range results {
		infraErrs = append(infraErrs, r.errs...)
	}
	// violations vs known findings
	known := map[string]finding{}
	for _, f := range findings {
		if f.Property == id {
			known[f.Key] = f
		}
	}
	printedKnown := map[string]bool{}
	var newVios []vrep.Violation
	seenKey := map[string]bool{}
	var nondet []string
	for _, r := range results {
		for _, rep := range r.reports {
			nondet = append(nondet, rep.Nondet...)
			if len(rep.Nondet) > 0 {
				// a worker whose executions are not a function of their choice lists: its violations are
				// not believed (those of the other workers still are)
				continue
			}
			for _, v := range rep.Violations {
				if f, ok := known[v.Key]; ok {
					if !printedKnown[v.Key] {
						printedKnown[v.Key] = true
						fmt.Printf("KNOWN-FINDING: property=%s %s [key=%s]\n", id, f.What, f.Key)
					}
					continue
				}
				if !seenKey[v.Key] {
					seenKey[v.Key] = true
					newVios = append(newVios, v)
				}
			}
		}
	}
	ev["violations"] = len(newVios)
	cov := ev["coverage"].(map[string]interface{})
	cov["known_findings_seen"] = len(printedKnown)
	if only == "" {
		writeEvidence(id, ev)
	} else {
		fmt.Println("(partial run with --only: evidence file not rewritten)")
	}
	if len(nondet) > 0 {
		for _, n := range nondet {
			fmt.Fprintf(os.Stderr, "NONDETERMINISM %s\n", oneLine(n, 600))
		}
		if len(newVios) == 0 {
			return fatal(2, "harness nondeterminism detected; nothing reported")
		}
		fmt.Fprintf(os.Stderr, "vcheck: %d worker(s) were not deterministic under replay; only violations from the deterministic workers are reported\n", len(nondet))
	}
	if len(infraErrs) > 0 {
		for _, e := range infraErrs {
			fmt.Fprintf(os.Stderr, "HARNESS-ERROR %s\n", e)
		}
		if len(newVios) == 0 {
			return fatal(2, "%d worker(s) failed; this is a failure of the check, not a verdict", len(infraErrs))
		}
		// the workers that did finish found violations: those stand on their own replays
		fmt.Fprintf(os.Stderr, "vcheck: %d worker(s) failed; the violations below come from the workers that completed\n", len(infraErrs))
	}
	if len(newVios) > 0 {
		rdir := filepath.Join(verifDir, "replays", id)
		if repoDir != "/repo" {
			rdir = filepath.Join(verifDir, ".work", "alt-replays", id)
		}
		os.MkdirAll(rdir, 0o755)
		var all strings.Builder
		for _, v := range newVios {
			fmt.Fprintf(&all, "%s\n    %s\n", v.Key, oneLine(v.What, 1500))
		}
		os.WriteFile(filepath.Join(rdir, "ALL-"+tier+".txt"), []byte(all.String()), 0o644)
		for i, v := range newVios {
			if i >= 6 {
				fmt.Printf("  (+%d further distinct violations not written out)\n", len(newVios)-i)
				break
			}
			h := sha1.Sum([]byte(v.Key))
			p := filepath.Join(rdir, fmt.Sprintf("%s-%x.json", v.Replay.Harness, h[:6]))
			b, _ := json.MarshalIndent(v.Replay, "", " ")
			os.WriteFile(p, b, 0o644)
			fmt.Printf("VIOLATION property=%s replay=%s\n", id, p)
			fmt.Printf("  what: %s\n  key: %s\n", oneLine(v.What, 400), oneLine(v.Key, 300))
		}
		return 1
	}
	fmt.Printf("OK property=%s tier=%s evaluations=%v distinct_nontrivial=%v exhaustive=%v wall=%.1fs\n", id, tier,
		cov["evaluations"], cov["distinct_nontrivial"], cov["exhaustive"], time.Since(start).Seconds())
	return 0
}

func parseParams(s string) map[string]string {
	m := map[string]string{}
	for _, kv := range strings.Split(s, ";") {
		if i := strings.Index(kv, "="); i > 0 {
			m[kv[:i]] = kv[i+1:]
		}
	}
	return m
}

func raceSummary(log string) string {
	var fn []string
	for _, l := range strings.Split(log, "\n") {
		l = strings.TrimSpace(l)
		if strings.HasPrefix(l, "github.com/") || strings.HasPrefix(l, "verifh/") {
			fn = append(fn, strings.Fields(l)[0])
			if len(fn) == 2 {
				break
			}
		}
	}
	return strings.Join(fn, " vs ")
}

// raceKey identifies a race by the first repository frame of each of its two
// accesses (function names only, no addresses).
// crashFinding extracts the first line of a runtime fatal error or an uncaught panic from a
// worker log ("" if the log shows neither).
func crashFinding(log string) string {
	for _, ln := range strings.Split(log, "\n") {
		ln = strings.TrimSpace(ln)
		if strings.HasPrefix(ln, "fatal error: concurrent map") || strings.HasPrefix(ln, "panic: sync:") ||
			strings.HasPrefix(ln, "fatal error: all goroutines are asleep") || strings.HasPrefix(ln, "fatal error: sync:") {
			return ln
		}
	}
	return ""
}

func raceKey(log string) string {
	var fr []string
	blocks := strings.Split(log, "\n\n")
	for _, b := range blocks {
		if !(strings.Contains(b, "Write at") || strings.Contains(b, "Read at") || strings.Contains(b, "Previous write") || strings.Contains(b, "Previous read")) {
			continue
		}
		for _, l := range strings.Split(b, "\n") {
			l = strings.TrimSpace(l)
			if strings.HasPrefix(l, "github.com/") {
				f := strings.Fields(l)[0]
				if i := strings.Index(f, "("); i > 0 && !strings.Contains(f[:i], ".func") {
					f = f[:i]
				}
				fr = append(fr, f)
				break
			}
		}
		if len(fr) == 2 {
			break
		}
	}
	sort.Strings(fr)
	return strings.Join(fr, "|")
}

func tail(s string, n int) string {
	l := strings.Split(strings.TrimRight(s, "\n"), "\n")
	if len(l) > n {
		l = l[len(l)-n:]
	}
	return strings.Join(l, "\n")
}

func oneLine(s string, n int) string {
	s = strings.ReplaceAll(s, "\n", "\\n")
	if len(s) > n {
		s = s[:n] + "…"
	}
	return s
}

func merge(id, tier string, plan Plan, results []jobResult, buildS float64, start time.Time) map[string]interface{} {
	var evals, nt, outc, states, trans, valid, nvio int64
	exhaustive := true
	var samples []interface{}
	bounds := map[string]interface{}{}
	assume := map[string]bool{}
	notes := map[string]bool{}
	var rules []string
	perHarness := []interface{}{}
	for _, r := range results {
		var he, hn, ho, hs, ht int64
		hex := len(r.errs) == 0 && len(r.reports) == r.job.Shards
		hb := map[string]interface{}{}
		var wall float64
		for _, rep := range r.reports {
			he += rep.Evaluations
			hn += rep.Nontrivial
			ho += rep.Outcomes
			hs += rep.States
			ht += rep.Transitions
			valid += rep.Validated
			nvio += rep.NViolations
			if !rep.Exhaustive {
				hex = false
			}
			if rep.WallS > wall {
				wall = rep.WallS
			}
			for k, v := range rep.Bounds {
				hb[k] = v
			}
			for _, a := range rep.Assumptions {
				assume[a] = true
			}
			for _, a := range rep.Notes {
				notes[a] = true
			}
			if rep.Rule != "" && !contains(rules, rep.Rule) {
				rules = append(rules, rep.Rule)
			}
			if len(samples) < 8 {
				for _, s := range rep.Samples {
					if len(samples) < 8 {
						samples = append(samples, map[string]interface{}{"harness": r.job.Harness, "case": s})
					}
				}
			}
		}
		evals += he
		nt += hn
		outc += ho
		states += hs
		trans += ht
		if !hex && !r.job.Race { // the free-running race pass is sampling by nature and not the deciding step
			exhaustive = false
		}
		name := r.job.Harness
		if r.job.Params != "" {
			name += "[" + r.job.Params + "]"
		}
		if r.job.Race {
			name += "(free-running -race pass, sampling, not the deciding step)"
		}
		for k, v := range hb {
			bounds[name+"."+k] = v
		}
		perHarness = append(perHarness, map[string]interface{}{"harness": name, "evaluations": he, "distinct_nontrivial": hn,
			"distinct_outcomes": ho, "states": hs, "transitions": ht, "exhaustive_within_bounds": hex, "shards": r.job.Shards, "max_worker_wall_s": wall})
	}
	cov := map[string]interface{}{
		"evaluations":                   evals,
		"distinct_nontrivial":           nt,
		"distinct_outcomes":             outc,
		"rule":                          strings.Join(rules, " || "),
		"samples":                       samples,
		"exhaustive":                    exhaustive,
		"bounds_completed":              bounds,
		"per_harness":                   perHarness,
		"violating_executions":          nvio,
		"build_s":                       buildS,
		"traces_validated_against_impl": valid,
	}
	if states > 0 {
		cov["states"] = states
		cov["transitions"] = trans
	}
	if len(notes) > 0 {
		cov["notes"] = keysOf(notes)
	}
	ev := map[string]interface{}{
		"property_id": id,
		"tier":        tier,
		"seed":        seed(),
		"level":       plan.Level,
		"coverage":    cov,
		"assumptions": keysOf(assume),
		"wall_s":      time.Since(start).Seconds(),
	}
	return ev
}

func contains(l []string, s string) bool {
	for _, x := range l {
		if x == s {
			return true
		}
	}
	return false
}

func keysOf(m map[string]bool) []string {
	out := []string{}
	for k := range m {
		out = append(out, k)
	}
	sort.Strings(out)
	return out
}

func writeEvidence(id string, ev map[string]interface{}) {
	dir := filepath.Join(verifDir, "evidence")
	if repoDir != "/repo" {
		dir = filepath.Join(verifDir, ".work", "alt-evidence")
	}
	os.MkdirAll(dir, 0o755)
	b, _ := json.MarshalIndent(ev, "", " ")
	os.WriteFile(filepath.Join(dir, id+".json"), b, 0o644)
}

// ---------------------------------------------------------------- replay

func replay(path string) int {
	b, err := os.ReadFile(path)
	if err != nil {
		return fatal(2, "%v", err)
	}
	var rf vrep.ReplayFile
	if err := json.Unmarshal(b, &rf); err != nil {
		return fatal(2, "%v", err)
	}
	abs, _ := filepath.Abs(path)
	work := filepath.Join(verifDir, ".work", fmt.Sprintf("replay-%d", os.Getpid()))
	os.MkdirAll(work, 0o755)
	defer os.RemoveAll(work)
	instr := rf.Params["__instr"]
	ov, err := makeOverlay(work, instr)
	if err != nil {
		return fatal(2, "%v", err)
	}
	bin, err := build(work, buildKey{rf.Package, instr, rf.Race}, ov)
	if err != nil {
		return fatal(2, "%v", err)
	}
	cmd := exec.Command(bin, "-test.run", "^TestVerif$", "-test.timeout", "0", "-test.v")
	cmd.Dir = work
	cmd.Env = append(os.Environ(), "VERIF_HARNESS="+rf.Harness, "VERIF_REPLAY="+abs, "VERIF_OUT=", "GOMAXPROCS=1")
	cmd.Stdout, cmd.Stderr = os.Stdout, os.Stderr
	if err := cmd.Run(); err != nil {
		fmt.Printf("REPLAY: violation reproduced (%v)\n", err)
		return 1
	}
	fmt.Println("REPLAY: no violation on this tree")
	return 0
}

func withInstr(j Job) string {
	if j.Instr == "" {
		return j.Params
	}
	if j.Params == "" {
		return "__instr=" + j.Instr
	}
	return j.Params + ";__instr=" + j.Instr
}

// warm builds every test binary the plans need once, so that the build cache
// is hot when the checks run (setup_cmd).
func warm() int {
	work := filepath.Join(verifDir, ".work", fmt.Sprintf("warm-%d", os.Getpid()))
	os.MkdirAll(work, 0o755)
	defer os.RemoveAll(work)
	seen := map[buildKey]bool{}
	overlays := map[string]string{}
	for _, id := range propertyIDs() {
		for _, tier := range []string{"quick", "thorough"} {
			plan, ok := plans(id, tier)
			if !ok {
				continue
			}
			for _, j := range plan.Jobs {
				k := buildKey{j.Pkg, j.Instr, j.Race}
				if seen[k] {
					continue
				}
				seen[k] = true
				if _, ok := overlays[j.Instr]; !ok {
					ov, err := makeOverlay(work, j.Instr)
					if err != nil {
						return fatal(2, "overlay: %v", err)
					}
					overlays[j.Instr] = ov
				}
				if _, err := build(work, k, overlays[j.Instr]); err != nil {
					return fatal(2, "%v", err)
				}
				fmt.Printf("warmed %s instr=%q race=%v\n", k.pkg, k.instr, k.race)
			}
		}
	}
	return 0
}
