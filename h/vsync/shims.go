package vsync

import (
	"fmt"
	realsync "sync"
	"unsafe"
)

// Locker mirrors sync.Locker.
type Locker = realsync.Locker

// Pool and Map never block: the real ones serve (a Pool's contents are per-P and therefore not a
// source of schedule-dependent behaviour under the cooperative scheduler, which runs one thread at a time).
type Pool = realsync.Pool
type Map = realsync.Map

// Mutex is a drop-in for sync.Mutex.
type Mutex struct {
	real  realsync.Mutex
	held  bool
	clock []int
}

func (m *Mutex) Lock() {
	s := current
	if s == nil {
		m.real.Lock()
		return
	}
	t := s.self()
	s.yield(t, func() bool { return !m.held }, "Mutex.Lock")
	m.held = true
	t.acquire(m.clock)
	s.trace("lock %p", m)
	s.post(t, "after Mutex.Lock")
}

func (m *Mutex) Unlock() {
	s := current
	if s == nil {
		m.real.Unlock()
		return
	}
	t := s.self()
	if !m.held {
		panic("sync: unlock of unlocked mutex")
	}
	t.release(&m.clock)
	m.held = false
	s.trace("unlock %p", m)
	s.yield(t, nil, "Mutex.Unlock")
}

func (m *Mutex) TryLock() bool {
	s := current
	if s == nil {
		return m.real.TryLock()
	}
	t := s.self()
	s.yield(t, nil, "Mutex.TryLock")
	if m.held {
		return false
	}
	m.held = true
	t.acquire(m.clock)
	return true
}

// RWMutex is a drop-in for sync.RWMutex (no writer preference is modelled:
// the explored behaviours are a superset of the real ones).
type RWMutex struct {
	real    realsync.RWMutex
	writer  bool
	readers int
	wclock  []int // released by writers
	rclock  []int // released by readers
}

func (m *RWMutex) Lock() {
	s := current
	if s == nil {
		m.real.Lock()
		return
	}
	t := s.self()
	s.yield(t, func() bool { return !m.writer && m.readers == 0 }, "RWMutex.Lock")
	m.writer = true
	t.acquire(m.wclock)
	t.acquire(m.rclock)
	s.trace("wlock %p", m)
}

func (m *RWMutex) Unlock() {
	s := current
	if s == nil {
		m.real.Unlock()
		return
	}
	t := s.self()
	if !m.writer {
		panic("sync: Unlock of unlocked RWMutex")
	}
	t.release(&m.wclock)
	m.writer = false
	s.trace("wunlock %p", m)
	s.yield(t, nil, "RWMutex.Unlock")
}

func (m *RWMutex) RLock() {
	s := current
	if s == nil {
		m.real.RLock()
		return
	}
	t := s.self()
	s.yield(t, func() bool { return !m.writer }, "RWMutex.RLock")
	m.readers++
	t.acquire(m.wclock)
	s.trace("rlock %p", m)
}

func (m *RWMutex) RUnlock() {
	s := current
	if s == nil {
		m.real.RUnlock()
		return
	}
	t := s.self()
	if m.readers <= 0 {
		panic("sync: RUnlock of unlocked RWMutex")
	}
	t.release(&m.rclock)
	m.readers--
	s.trace("runlock %p", m)
	s.yield(t, nil, "RWMutex.RUnlock")
}

// RLocker mirrors sync.RWMutex.RLocker.
func (m *RWMutex) RLocker() Locker { return (*rlocker)(m) }

type rlocker RWMutex

func (r *rlocker) Lock()   { (*RWMutex)(r).RLock() }
func (r *rlocker) Unlock() { (*RWMutex)(r).RUnlock() }

// WaitGroup is a drop-in for sync.WaitGroup.
type WaitGroup struct {
	real  realsync.WaitGroup
	n     int
	clock []int
}

func (w *WaitGroup) Add(d int) {
	s := current
	if s == nil {
		w.real.Add(d)
		return
	}
	t := s.self()
	if d < 0 {
		t.release(&w.clock)
	}
	w.n += d
	if w.n < 0 {
		panic("sync: negative WaitGroup counter")
	}
	s.trace("wg.Add(%d) -> %d", d, w.n)
	s.yield(t, nil, "WaitGroup.Add")
}

func (w *WaitGroup) Done() { w.Add(-1) }

func (w *WaitGroup) Wait() {
	s := current
	if s == nil {
		w.real.Wait()
		return
	}
	t := s.self()
	s.yield(t, func() bool { return w.n == 0 }, "WaitGroup.Wait")
	t.acquire(w.clock)
	s.trace("wg.Wait done")
	s.post(t, "after WaitGroup.Wait")
}

// Once is a drop-in for sync.Once.
type Once struct {
	real  realsync.Once
	m     Mutex
	done  bool
	clock []int
}

func (o *Once) Do(f func()) {
	s := current
	if s == nil {
		o.real.Do(f)
		return
	}
	o.m.Lock()
	if !o.done {
		f()
		o.done = true
	}
	o.m.Unlock()
}

// Chan is the modelled channel (buffered channels and rendezvous-free use;
// capacity 0 is supported for channels that are only closed or ranged over
// after close).
type Chan[T any] struct {
	buf    []T
	clocks [][]int
	cap    int
	closed bool
	cclock []int
	real   chan T
}

// MakeChan mirrors make(chan T, n).
func MakeChan[T any](n int) *Chan[T] {
	if current == nil {
		return &Chan[T]{real: make(chan T, n), cap: n}
	}
	return &Chan[T]{cap: n}
}

// adopt moves the channel into the mode of the moment: a channel made while no scheduler was
// installed (package-level variables, objects built during set-up) becomes a modelled one on its
// first use under a scheduler - its buffered values are carried over - and the other way round.
func (c *Chan[T]) adopt() {
	if current != nil && c.real != nil {
		for {
			select {
			case v, ok := <-c.real:
				if !ok {
					c.closed = true
					c.real = nil
					return
				}
				c.buf = append(c.buf, v)
				c.clocks = append(c.clocks, nil)
				continue
			default:
			}
			break
		}
		c.real = nil
	} else if current == nil && c.real == nil {
		n := c.cap
		if len(c.buf) > n {
			n = len(c.buf)
		}
		c.real = make(chan T, n)
		for _, v := range c.buf {
			c.real <- v
		}
		c.buf, c.clocks = nil, nil
		if c.closed {
			close(c.real)
		}
	}
}

func (c *Chan[T]) Send(v T) {
	c.adopt()
	s := current
	if c.real != nil {
		c.real <- v
		return
	}
	if s == nil {
		panic("vsync: modelled channel used outside the scheduler")
	}
	t := s.self()
	if c.cap == 0 {
		panic("vsync: UNSUPPORTED send on unbuffered modelled channel")
	}
	s.yield(t, func() bool { return c.closed || len(c.buf) < c.cap }, "chan send")
	if c.closed {
		panic("send on closed channel")
	}
	var ck []int
	join(&ck, t.vc)
	t.tick()
	c.buf = append(c.buf, v)
	c.clocks = append(c.clocks, ck)
	s.trace("send %p len=%d", c, len(c.buf))
	s.post(t, "after chan send")
}

// Recv mirrors <-c.
func (c *Chan[T]) Recv() T {
	v, _ := c.Recv2()
	return v
}

// Recv2 mirrors v, ok := <-c.
func (c *Chan[T]) Recv2() (T, bool) {
	c.adopt()
	s := current
	if c.real != nil {
		v, ok := <-c.real
		return v, ok
	}
	if s == nil {
		panic("vsync: modelled channel used outside the scheduler")
	}
	t := s.self()
	s.yield(t, func() bool { return len(c.buf) > 0 || c.closed }, "chan recv")
	if len(c.buf) > 0 {
		v := c.buf[0]
		t.acquire(c.clocks[0])
		c.buf = c.buf[1:]
		c.clocks = c.clocks[1:]
		s.trace("recv %p len=%d", c, len(c.buf))
		s.post(t, "after chan recv")
		return v, true
	}
	t.acquire(c.cclock)
	s.post(t, "after chan recv (closed)")
	var zero T
	return zero, false
}

// TryRecv2 mirrors `select { case v, ok := <-c: ...; default: ... }`: got reports whether the
// receive case was taken (a value was buffered, or the channel is closed).
func (c *Chan[T]) TryRecv2() (v T, ok bool, got bool) {
	c.adopt()
	s := current
	if c.real != nil {
		select {
		case v, ok = <-c.real:
			return v, ok, true
		default:
			return v, false, false
		}
	}
	if s == nil {
		panic("vsync: modelled channel used outside the scheduler")
	}
	t := s.self()
	s.yield(t, nil, "chan try-recv")
	if len(c.buf) > 0 {
		v = c.buf[0]
		t.acquire(c.clocks[0])
		c.buf = c.buf[1:]
		c.clocks = c.clocks[1:]
		s.post(t, "after chan try-recv")
		return v, true, true
	}
	if c.closed {
		t.acquire(c.cclock)
		return v, false, true
	}
	return v, false, false
}

// TrySend mirrors `select { case c <- v: ...; default: ... }`.
func (c *Chan[T]) TrySend(v T) bool {
	c.adopt()
	s := current
	if c.real != nil {
		select {
		case c.real <- v:
			return true
		default:
			return false
		}
	}
	if s == nil {
		panic("vsync: modelled channel used outside the scheduler")
	}
	t := s.self()
	s.yield(t, nil, "chan try-send")
	if c.closed {
		panic("send on closed channel")
	}
	if len(c.buf) >= c.cap {
		return false
	}
	var ck []int
	join(&ck, t.vc)
	t.tick()
	c.buf = append(c.buf, v)
	c.clocks = append(c.clocks, ck)
	s.post(t, "after chan try-send")
	return true
}

// Close mirrors close(c).
func (c *Chan[T]) Close() {
	c.adopt()
	s := current
	if c.real != nil {
		close(c.real)
		return
	}
	if s == nil {
		panic("vsync: modelled channel used outside the scheduler")
	}
	t := s.self()
	s.yield(t, nil, "chan close")
	if c.closed {
		panic("close of closed channel")
	}
	t.release(&c.cclock)
	c.closed = true
	s.trace("close %p", c)
	s.post(t, "after chan close")
}

// Len mirrors len(c).
func (c *Chan[T]) Len() int {
	c.adopt()
	if c.real != nil {
		return len(c.real)
	}
	return len(c.buf)
}

// ---------------------------------------------------------------- race monitor

type epoch struct {
	tid, clk int
	site     string
}

type location struct {
	name string
	// pin keeps the accessed object alive (and, because the pointer escapes here, on the heap) until
	// the execution's location table is dropped: an address is never reused for another object
	// within one execution, so two events on one key are two accesses of one object
	pin   unsafe.Pointer
	write *epoch
	reads map[int]epoch
}

func hb(e epoch, vc []int) bool { return e.tid < len(vc) && e.clk <= vc[e.tid] }

// Access reports a read or write of the memory at p (instrumented fields).
func Access(p unsafe.Pointer, write bool, site string) {
	s := current
	if s == nil {
		return
	}
	t := s.self()
	s.Accesses++
	if s.AccessYields {
		s.yield(t, nil, "access "+site)
	}
	l := s.locs[uintptr(p)]
	if l == nil {
		l = &location{name: site, reads: map[int]epoch{}, pin: p}
		s.locs[uintptr(p)] = l
	}
	me := epoch{t.id, t.vc[t.id], site}
	report := func(o epoch, ow bool) {
		r := Race{Loc: fmt.Sprintf("%s", l.name), SiteA: o.site, SiteB: site, WriteA: ow, WriteB: write}
		k := r.SiteA + "|" + r.SiteB
		if !s.raceSeen[k] {
			s.raceSeen[k] = true
			s.Races = append(s.Races, r)
		}
	}
	if l.write != nil && l.write.tid != t.id && !hb(*l.write, t.vc) {
		report(*l.write, true)
	}
	if write {
		for tid, e := range l.reads {
			if tid != t.id && !hb(e, t.vc) {
				report(e, false)
			}
		}
		l.write = &me
		l.reads = map[int]epoch{}
	} else {
		l.reads[t.id] = me
	}
}

// post is the optional scheduling point after an operation (PostYield).
func (s *Sched) post(t *thread, what string) {
	if s.PostYield {
		s.yield(t, nil, what)
	}
}
