package vsync

import (
	"testing"
	"unsafe"

	"verifh/vx"
)

func explore(budget int, p Policy, body func(s *Sched), check func(s *Sched)) int64 {
	e := &vx.Explorer{Budget: budget}
	e.Explore(func(r *vx.Run) {
		s := New(r, p)
		s.Main(func() { body(s) })
		r.Note = map[string]interface{}{"s": s}
	}, func(r *vx.Run) { check(r.Note["s"].(*Sched)) })
	return e.Executions
}

func TestLostUpdate(t *testing.T) {
	for _, pol := range []Policy{Preemption, Delay} {
		outcomes := map[int]int{}
		var x int
		n := explore(2, pol, func(s *Sched) {
			x = 0
			var wg WaitGroup
			wg.Add(2)
			for i := 0; i < 2; i++ {
				Go("w", func() {
					v := x
					Yield("between")
					x = v + 1
					wg.Done()
				})
			}
			wg.Wait()
		}, func(s *Sched) {
			if s.Failed() {
				t.Fatalf("failed: %s %s", s.Deadlock, s.Panic)
			}
			outcomes[x]++
		})
		if outcomes[1] == 0 || outcomes[2] == 0 {
			t.Fatalf("policy %v: outcomes %v after %d executions", pol, outcomes, n)
		}
		t.Logf("policy %v: %d executions, outcomes %v", pol, n, outcomes)
	}
}

func TestMutexProtects(t *testing.T) {
	var x int
	explore(2, Preemption, func(s *Sched) {
		x = 0
		var mu Mutex
		var wg WaitGroup
		wg.Add(2)
		for i := 0; i < 2; i++ {
			Go("w", func() {
				mu.Lock()
				Access(unsafe.Pointer(&x), false, "read x")
				v := x
				Yield("between")
				Access(unsafe.Pointer(&x), true, "write x")
				x = v + 1
				mu.Unlock()
				wg.Done()
			})
		}
		wg.Wait()
	}, func(s *Sched) {
		if s.Failed() || x != 2 || len(s.Races) > 0 {
			t.Fatalf("x=%d failed=%v races=%v", x, s.Failed(), s.Races)
		}
	})
}

func TestRaceAndDeadlock(t *testing.T) {
	races, deadlocks := 0, 0
	var x int
	explore(2, Preemption, func(s *Sched) {
		var a, b Mutex
		var wg WaitGroup
		wg.Add(2)
		Go("ab", func() {
			Access(unsafe.Pointer(&x), true, "w1")
			a.Lock()
			b.Lock()
			b.Unlock()
			a.Unlock()
			wg.Done()
		})
		Go("ba", func() {
			Access(unsafe.Pointer(&x), true, "w2")
			b.Lock()
			a.Lock()
			a.Unlock()
			b.Unlock()
			wg.Done()
		})
		wg.Wait()
	}, func(s *Sched) {
		if s.Deadlock != "" {
			deadlocks++
		}
		if len(s.Races) > 0 {
			races++
		}
	})
	if races == 0 || deadlocks == 0 {
		t.Fatalf("races=%d deadlocks=%d", races, deadlocks)
	}
}

func TestPanicInThread(t *testing.T) {
	n := 0
	explore(1, Preemption, func(s *Sched) {
		var wg WaitGroup
		wg.Add(1)
		Go("p", func() { panic("boom") })
		wg.Wait()
	}, func(s *Sched) {
		if s.Panic != "boom" {
			t.Fatalf("panic=%q deadlock=%q", s.Panic, s.Deadlock)
		}
		n++
	})
	if n == 0 {
		t.Fatal("no executions")
	}
}

func TestChanClose(t *testing.T) {
	sawPanic := false
	explore(2, Preemption, func(s *Sched) {
		ch := MakeChan[int](1)
		var wg WaitGroup
		wg.Add(1)
		Go("sender", func() {
			wg.Done()
			ch.Send(1)
		})
		Go("closer", func() {
			wg.Wait()
			ch.Close()
		})
		for {
			if _, ok := ch.Recv2(); !ok {
				break
			}
		}
	}, func(s *Sched) {
		if s.Panic == "send on closed channel" {
			sawPanic = true
		}
	})
	if !sawPanic {
		t.Fatal("send-on-closed interleaving not found")
	}
}
