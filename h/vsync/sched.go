// Package vsync is the controlled-concurrency layer: a cooperative scheduler
// whose every decision is a choice point of the vx explorer, drop-in shims for
// sync.Mutex / RWMutex / WaitGroup / Once, a channel type, the goroutine
// spawner, the map-iteration-order seam, yield points and a vector-clock
// data-race monitor. Instrumented copies of repository sources (produced by
// vinstr at check time) call into it; when no scheduler is installed every
// shim falls back to the real primitive, so instrumented code also runs
// free (corpus construction, cross-checks).
package vsync

import (
	"fmt"
	"runtime"
	"sort"
	"strings"

	"verifh/vx"
)

// Policy selects how scheduler alternatives are costed.
type Policy int

const (
	// Preemption: switching away from a thread that could continue costs 1;
	// switches at blocking points and thread exits are free.
	Preemption Policy = iota
	// Delay: the k-th alternative of the deterministic default scheduler
	// (running thread first, then round-robin) costs k.
	Delay
)

type thread struct {
	id     int
	name   string
	resume chan bool // true: run, false: abort
	done   bool
	pred   func() bool // enabledness of the pending operation (nil: enabled)
	vc     []int
	what   string // description of the pending operation
}

// Race is one happens-before data race found by the monitor.
type Race struct {
	Loc            string
	SiteA, SiteB   string
	WriteA, WriteB bool
}

func (r Race) String() string {
	k := func(w bool) string {
		if w {
			return "write"
		}
		return "read"
	}
	return fmt.Sprintf("data race on %s: %s at %s is unordered with %s at %s", r.Loc, k(r.WriteA), r.SiteA, k(r.WriteB), r.SiteB)
}

// Sched is one controlled execution.
type Sched struct {
	run     *vx.Run
	policy  Policy
	threads []*thread
	cur     *thread
	Steps   int
	SyncOps int // lock and channel operations of the modelled threads (WaitGroups, which harnesses use to join, not counted)
	Horizon int
	// AccessYields makes every instrumented memory access a scheduling point.
	AccessYields bool
	// PostYield adds a scheduling point AFTER channel sends/receives/closes and after lock
	// acquisitions and WaitGroup waits (unlocks and WaitGroup.Add already have one): the code that
	// follows an operation is then a step of its own, so that a thread can be preempted between
	// handing something over and what it does next with data the scheduler does not see.
	PostYield bool
	// Accesses counts access events (vacuity guard for harnesses that rely on the monitor).
	Accesses int
	// YieldFilter, if set, decides which Yield sites are scheduling points.
	YieldFilter func(site string) bool

	Deadlock    string
	Panic       string
	PanicStack  string
	HorizonHit  bool
	Races       []Race
	raceSeen    map[string]bool
	MaxEnabled  int // maximal number of simultaneously enabled threads seen
	Switches    int
	Trace       []string
	WantTrace   bool
	aborted     bool
	locs        map[uintptr]*location
	mapOrderDev bool
	finished    chan struct{}
	divergence  *vx.Divergence
}

type abortSentinel struct{}

var current *Sched

// Current returns the installed scheduler (nil when running free).
func Current() *Sched { return current }

// New creates a scheduler bound to one explorer run.
func New(r *vx.Run, p Policy) *Sched {
	return &Sched{run: r, policy: p, Horizon: 50000, raceSeen: map[string]bool{}, locs: map[uintptr]*location{}}
}

// Main runs body as thread 0 under the scheduler and returns when every
// thread has finished, or the execution deadlocked, panicked or hit the
// horizon (then every thread has been unwound).
func (s *Sched) Main(body func()) {
	if current != nil {
		panic("vsync: nested scheduler")
	}
	current = s
	defer func() { current = nil }()
	t0 := &thread{id: 0, name: "main", resume: make(chan bool, 1), vc: []int{1}}
	s.threads = []*thread{t0}
	s.cur = t0
	s.finished = make(chan struct{}, 1)
	s.runThread(t0, body)
	<-s.finished
	if s.divergence != nil {
		panic(*s.divergence)
	}
}

// runThread executes fn as thread t and performs the thread's exit protocol.
func (s *Sched) runThread(t *thread, fn func()) {
	defer func() {
		x := recover()
		t.done = true
		if x != nil {
			if _, ok := x.(abortSentinel); !ok {
				if d, ok := x.(vx.Divergence); ok {
					s.divergence = &d
				} else {
					s.cur = t
					s.notePanic(x)
				}
				s.aborted = true
			}
		}
		if s.aborted {
			s.abortNext()
			return
		}
		next := s.pick(nil, "thread-exit")
		if next == nil {
			for _, o := range s.threads {
				if !o.done {
					s.Deadlock = s.describeBlocked()
					s.aborted = true
					s.abortNext()
					return
				}
			}
			s.finished <- struct{}{}
			return
		}
		s.cur = next
		next.resume <- true
	}()
	fn()
}

// abortNext unwinds one more parked thread, or reports completion.
func (s *Sched) abortNext() {
	for _, o := range s.threads {
		if !o.done {
			o.resume <- false
			return
		}
	}
	s.finished <- struct{}{}
}

func (s *Sched) notePanic(x interface{}) {
	if s.Panic == "" {
		s.Panic = fmt.Sprint(x)
		buf := make([]byte, 6000)
		s.PanicStack = string(buf[:runtime.Stack(buf, false)])
	}
}

// Failed reports whether the execution ended abnormally.
func (s *Sched) Failed() bool { return s.Deadlock != "" || s.Panic != "" }

func (s *Sched) trace(f string, a ...interface{}) {
	if s.WantTrace {
		s.Trace = append(s.Trace, fmt.Sprintf("T%d ", s.cur.id)+fmt.Sprintf(f, a...))
	}
}

// enabledOrder returns enabled threads in canonical order.
func (s *Sched) enabledOrder(t *thread) []*thread {
	var out []*thread
	en := func(x *thread) bool { return !x.done && (x.pred == nil || x.pred()) }
	if t != nil && en(t) {
		out = append(out, t)
	}
	n := len(s.threads)
	start := 0
	if t != nil {
		start = t.id + 1
	}
	for k := 0; k < n; k++ {
		x := s.threads[(start+k)%n]
		if x != t && en(x) {
			out = append(out, x)
		}
	}
	return out
}

// pick chooses the next thread to run at a point reached by t (t may be done).
func (s *Sched) pick(t *thread, label string) *thread {
	en := s.enabledOrder(t)
	if len(en) > s.MaxEnabled {
		s.MaxEnabled = len(en)
	}
	if len(en) == 0 {
		return nil
	}
	if len(en) == 1 {
		return en[0]
	}
	var k int
	switch s.policy {
	case Preemption:
		costs := make([]int, len(en))
		if en[0] == t { // running thread still enabled: leaving it is a preemption
			for i := 1; i < len(costs); i++ {
				costs[i] = 1
			}
		}
		k = s.run.ChooseCost(costs, label)
	default:
		k = s.run.Delay(len(en), label)
	}
	return en[k]
}

// yield is a scheduling point of thread t whose pending operation is enabled
// iff pred() (nil: always).
func (s *Sched) yield(t *thread, pred func() bool, what string) {
	if s.aborted {
		panic(abortSentinel{})
	}
	s.Steps++
	if strings.HasPrefix(what, "Mutex.") || strings.HasPrefix(what, "RWMutex.") || strings.HasPrefix(what, "chan ") {
		s.SyncOps++
	}
	if s.Steps > s.Horizon {
		s.HorizonHit = true
		s.aborted = true
		panic(abortSentinel{})
	}
	t.pred = pred
	t.what = what
	next := s.pick(t, what)
	if next == nil {
		s.Deadlock = s.describeBlocked()
		s.aborted = true
		panic(abortSentinel{})
	}
	if next != t {
		s.Switches++
		s.cur = next
		next.resume <- true
		if ok := <-t.resume; !ok {
			panic(abortSentinel{})
		}
		s.cur = t
	}
	t.pred = nil
}

func (s *Sched) describeBlocked() string {
	var parts []string
	for _, x := range s.threads {
		if !x.done {
			parts = append(parts, fmt.Sprintf("T%d(%s) blocked at %s", x.id, x.name, x.what))
		}
	}
	return "deadlock: " + strings.Join(parts, "; ")
}

func (s *Sched) self() *thread { return s.cur }

// Go starts fn as a new modelled thread.
func Go(site string, fn func()) {
	s := current
	if s == nil {
		go fn()
		return
	}
	p := s.self()
	t := &thread{id: len(s.threads), name: site, resume: make(chan bool, 1), vc: make([]int, len(s.threads)+1)}
	copy(t.vc, p.vc)
	t.vc[t.id] = 1
	p.tick()
	s.threads = append(s.threads, t)
	go func() {
		if ok := <-t.resume; !ok {
			t.done = true
			s.abortNext()
			return
		}
		s.runThread(t, fn)
	}()
	s.trace("go %s -> T%d", site, t.id)
	s.yield(p, nil, "go "+site)
}

// Yield is an explicit scheduling point (inserted by vinstr).
func Yield(site string) {
	s := current
	if s == nil {
		return
	}
	if s.YieldFilter != nil && !s.YieldFilter(site) {
		return
	}
	s.yield(s.self(), nil, "yield "+site)
}

// ---------------------------------------------------------------- clocks

func (t *thread) tick() { t.vc[t.id]++ }

func join(dst *[]int, src []int) {
	for len(*dst) < len(src) {
		*dst = append(*dst, 0)
	}
	for i, v := range src {
		if v > (*dst)[i] {
			(*dst)[i] = v
		}
	}
}

func (t *thread) acquire(c []int) { join(&t.vc, c) }

func (t *thread) release(c *[]int) {
	join(c, t.vc)
	t.tick()
}

// ---------------------------------------------------------------- map order

// MapOrderMode controls the map-iteration seam when no scheduler is
// installed: the harness can still drive it through an explorer run.
type mapSeam struct {
	run    *vx.Run
	budget bool
	sites  map[string]bool // nil: all sites
	Used   map[string]int
}

var seam *mapSeam

// InstallMapSeam routes every instrumented map range through run: the default
// answer is the canonical (sorted) order, every other order is a deviation.
// sites limits the permuted sites (nil: all).
func InstallMapSeam(run *vx.Run, sites map[string]bool) func() map[string]int {
	seam = &mapSeam{run: run, sites: sites, Used: map[string]int{}}
	return func() map[string]int { u := seam.Used; seam = nil; return u }
}

// orderAlternatives: number of alternative orders offered for n keys: all n!
// for n<=4; identity, reversal and every rotation for n<=16; identity,
// reversal and 15 evenly spread rotations beyond that.
func orderAlternatives(n int) int {
	switch {
	case n <= 1:
		return 1
	case n == 2:
		return 2
	case n == 3:
		return 6
	case n == 4:
		return 24
	case n <= 16:
		return n + 1
	default:
		return 17
	}
}

func permute[K any](keys []K, k int) {
	n := len(keys)
	if k == 0 || n <= 1 {
		return
	}
	if n <= 4 {
		// k-th permutation in lexicographic order (factorial number system)
		src := append([]K(nil), keys...)
		f := 1
		for i := 2; i < n; i++ {
			f *= i
		}
		for i := 0; i < n; i++ {
			idx := k / f
			k %= f
			keys[i] = src[idx]
			src = append(src[:idx], src[idx+1:]...)
			if n-1-i > 0 {
				f /= (n - 1 - i)
			}
		}
		return
	}
	if k == 1 { // reversal
		for i, j := 0, n-1; i < j; i, j = i+1, j-1 {
			keys[i], keys[j] = keys[j], keys[i]
		}
		return
	}
	by := k - 1 // rotation amount
	if n > 16 {
		by = (k - 1) * n / 16
	}
	rot := append(append([]K(nil), keys[by:]...), keys[:by]...)
	copy(keys, rot)
}

type ordered interface {
	~int | ~int8 | ~int16 | ~int32 | ~int64 | ~uint | ~uint8 | ~uint16 | ~uint32 | ~uint64 | ~uintptr | ~float32 | ~float64 | ~string
}

// MapKeys returns the keys of m in the order the environment decides:
// canonical sorted order by default; under a seam or scheduler the explorer
// may pick another order (a deviation).
func MapKeys[K ordered, V any](site string, m map[K]V) []K {
	keys := make([]K, 0, len(m))
	for k := range m {
		keys = append(keys, k)
	}
	selected := seam != nil && (seam.sites == nil || seam.sites[site])
	if !selected && current == nil {
		// neither an order seam for this site nor a scheduler: Go's own order (the loop is then
		// outside the explored nondeterminism, e.g. a commutative counting loop at corpus scale)
		return keys
	}
	sort.Slice(keys, func(i, j int) bool { return keys[i] < keys[j] })
	if selected && len(keys) > 1 {
		seam.Used[site]++
		k := seam.run.Deviate(orderAlternatives(len(keys)), "map-order "+site)
		permute(keys, k)
	}
	return keys
}

// RunDefault runs f as thread 0 of a controlled execution with the default
// schedule (every scheduler choice 0): goroutines spawned through Go become
// modelled threads, so a panic in one of them is an observation instead of a
// process crash, and the order in which workers finish is fixed.
func RunDefault(f func()) (panicMsg, deadlock string, steps int) {
	var s *Sched
	vx.Replay(nil, func(r *vx.Run) {
		s = New(r, Delay)
		s.Horizon = 5000000
		s.Main(f)
	})
	return s.Panic, s.Deadlock, s.Steps
}
