#!/bin/bash
# dev helper: regression run of all archived seeded changes against the quick checks of the property
# they break (each in its own scratch worktree, /repo untouched). Prints one line per change.
export GOFLAGS=-mod=mod GOPROXY=off GOSUMDB=off GOTOOLCHAIN=local
for d in /verif/seeded/*/; do
  n=$(basename $d); [ -f $d/patch.diff ] || continue
  [ -n "${FILTER:-}" ] && ! [[ $n =~ $FILTER ]] && continue   # FILTER=<regex on the change's name>
  prop=$(python3 -c "import json;m=json.load(open('$d/meta.json'));print(m.get('check_with',m['breaks_property']))")
  if python3 -c "import json,sys;sys.exit(0 if json.load(open('$d/meta.json')).get('obsolete') else 1)"; then echo "$n $prop OBSOLETE (no longer breaks the property, see meta.json)"; continue; fi
  wt=/tmp/sa_wt_$$; git -C /repo worktree add -q $wt HEAD || exit 3
  if ( cd $wt && git apply $d/patch.diff ) 2>/dev/null; then
    out=$(VERIF_REPO=$wt /verif/h/bin/vcheck $prop 2>&1); rc=$?
    echo "$n $prop rc=$rc violations=$(echo "$out" | grep -c '^VIOLATION') $( [ $rc -eq 1 ] && echo CAUGHT || echo NOT-CAUGHT )"
  else
    echo "$n $prop PATCH-DOES-NOT-APPLY"
  fi
  git -C /repo worktree remove --force $wt
done
