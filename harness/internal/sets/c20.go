//go:build verif && go1.21

package sets

import (
	"fmt"
	"testing"

	"verifh/vmodel"
	"verifh/vrep"
)

func TestVerif(t *testing.T) {
	vrep.Main(t, "github.com/google/licenseclassifier/internal/sets", map[string]vrep.Harness{
		"c20_stringset": func(c *vrep.Ctx) {
			long := c.Param("family", "") == "long"
			u := []string{"x", "y", "z"}
			if c.Thorough() {
				u = append(u, "")
			}
			if c.Param("universe", "") == "wide" {
				// elements with a long common prefix (one of them a prefix of the others), and a pair that
				// differs only by a trailing NUL
				u = []string{"LGPL-2.1-only", "LGPL-2.1+", "LGPL-2.1", "a\x00"}
				if c.Thorough() {
					u = append(u, "a")
				}
			}
			api := &vmodel.SetAPI[*StringSet, string]{
				Name: "StringSet", Universe: u, Fresh: "w", Nil: nil,
				New:        func(e ...string) *StringSet { return NewStringSet(e...) },
				Copy:       func(s *StringSet) *StringSet { return s.Copy() },
				Insert:     func(s *StringSet, e ...string) { s.Insert(e...) },
				Delete:     func(s *StringSet, e ...string) { s.Delete(e...) },
				Intersect:  func(a, b *StringSet) *StringSet { return a.Intersect(b) },
				Disjoint:   func(a, b *StringSet) bool { return a.Disjoint(b) },
				Difference: func(a, b *StringSet) *StringSet { return a.Difference(b) },
				Unique:     func(a, b *StringSet) *StringSet { return a.Unique(b) },
				Equal:      func(a, b *StringSet) bool { return a.Equal(b) },
				Union:      func(a, b *StringSet) *StringSet { return a.Union(b) },
				Contains:   func(a *StringSet, e string) bool { return a.Contains(e) },
				Len:        func(a *StringSet) int { return a.Len() },
				Empty:      func(a *StringSet) bool { return a.Empty() },
				Elements:   func(a *StringSet) []string { return a.Elements() },
				Sorted:     func(a *StringSet) []string { return a.Sorted() },
				String:     func(a *StringSet) string { return a.String() },
				Less:       func(a, b string) bool { return a < b },
				Quote:      func(e string) string { return fmt.Sprintf("%q", e) },
			}
			if long {
				// all elements share their first 14 bytes
				vmodel.CheckSetsLong(c, api, func(i int) string { return fmt.Sprintf("common-prefix-%05d", i) })
				return
			}
			if c.Param("family", "") == "histories" {
				vmodel.CheckSetHistories(c, api)
				return
			}
			vmodel.CheckSets(c, api)
		},
	})
}
