//go:build verif && go1.21

package sets

import (
	"fmt"
	"testing"

	"verifh/vmodel"
	"verifh/vrep"
)

func TestVerif(t *testing.T) {
	vrep.Main(t, "github.com/google/licenseclassifier/stringclassifier/internal/sets", map[string]vrep.Harness{
		"c20_intset": func(c *vrep.Ctx) {
			long := c.Param("family", "") == "long"
			u := []int{-1, 0, 7}
			if c.Thorough() {
				u = append(u, 1<<40)
			}
			if c.Param("universe", "") == "wide" {
				// elements that differ only above bit 31 / bit 15, and the extreme values
				u = []int{5, 1<<32 + 5, 1<<16 + 5, -1 << 63}
				if c.Thorough() {
					u = append(u, 1<<63-1)
				}
			}
			api := &vmodel.SetAPI[*IntSet, int]{
				Name: "IntSet", Universe: u, Fresh: 99, Nil: nil,
				New:        func(e ...int) *IntSet { return NewIntSet(e...) },
				Copy:       func(s *IntSet) *IntSet { return s.Copy() },
				Insert:     func(s *IntSet, e ...int) { s.Insert(e...) },
				Delete:     func(s *IntSet, e ...int) { s.Delete(e...) },
				Intersect:  func(a, b *IntSet) *IntSet { return a.Intersect(b) },
				Disjoint:   func(a, b *IntSet) bool { return a.Disjoint(b) },
				Difference: func(a, b *IntSet) *IntSet { return a.Difference(b) },
				Unique:     func(a, b *IntSet) *IntSet { return a.Unique(b) },
				Equal:      func(a, b *IntSet) bool { return a.Equal(b) },
				Union:      func(a, b *IntSet) *IntSet { return a.Union(b) },
				Contains:   func(a *IntSet, e int) bool { return a.Contains(e) },
				Len:        func(a *IntSet) int { return a.Len() },
				Empty:      func(a *IntSet) bool { return a.Empty() },
				Elements:   func(a *IntSet) []int { return a.Elements() },
				Sorted:     func(a *IntSet) []int { return a.Sorted() },
				String:     func(a *IntSet) string { return a.String() },
				Less:       func(a, b int) bool { return a < b },
				Quote:      func(e int) string { return fmt.Sprintf("%d", e) },
			}
			if long {
				vmodel.CheckSetsLong(c, api, func(i int) int { return (i - 200) * 7 } /* negative, zero and positive elements, increasing */)
				return
			}
			if c.Param("family", "") == "histories" {
				vmodel.CheckSetHistories(c, api)
				return
			}
			vmodel.CheckSets(c, api)
		},
	})
}
