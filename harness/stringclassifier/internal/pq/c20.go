//go:build verif && go1.21

package pq

import (
	"fmt"
	"sort"
	"strings"
	"testing"

	"verifh/vx"

	"verifh/vmodel"
	"verifh/vrep"
)

func TestVerif(t *testing.T) {
	api := &vmodel.QueueAPI{
		New: func(less func(x, y interface{}) bool, si func(x interface{}, idx int)) interface{} {
			return NewQueue(less, si)
		},
		Len:    func(q interface{}) int { return q.(*Queue).Len() },
		Push:   func(q interface{}, x interface{}) { q.(*Queue).Push(x) },
		Min:    func(q interface{}) interface{} { return q.(*Queue).Min() },
		Pop:    func(q interface{}) interface{} { return q.(*Queue).Pop() },
		Fix:    func(q interface{}, i int) { q.(*Queue).Fix(i) },
		Remove: func(q interface{}, i int) { q.(*Queue).Remove(i) },
		Array:  func(q interface{}) []interface{} { return q.(*Queue).heap.a },
	}
	vrep.Main(t, "github.com/google/licenseclassifier/stringclassifier/internal/pq", map[string]vrep.Harness{
		"c20_queue_long": func(c *vrep.Ctx) { vmodel.CheckQueueLong(c, api) },
		"c20_queues":     c20Queues,
		"c20_queue": func(c *vrep.Ctx) {
			vmodel.CheckQueue(c, &vmodel.QueueAPI{
				New: func(less func(x, y interface{}) bool, si func(x interface{}, idx int)) interface{} {
					return NewQueue(less, si)
				},
				Len:    func(q interface{}) int { return q.(*Queue).Len() },
				Push:   func(q interface{}, x interface{}) { q.(*Queue).Push(x) },
				Min:    func(q interface{}) interface{} { return q.(*Queue).Min() },
				Pop:    func(q interface{}) interface{} { return q.(*Queue).Pop() },
				Fix:    func(q interface{}, i int) { q.(*Queue).Fix(i) },
				Remove: func(q interface{}, i int) { q.(*Queue).Remove(i) },
				Array:  func(q interface{}) []interface{} { return q.(*Queue).heap.a },
			})
		},
	})
}

// c20Queues: SEVERAL queues alive at the same time (what one queue does - grow, drain, grow again -
// must not reach another): every sequence of up to N operations from {Push of a low / high value,
// Pop} on two (thorough: three) queues; each queue against its own sorted-slice model, positions
// reported through setIndex included.
func c20Queues(c *vrep.Ctx) {
	nq := c.Pick(2, 3)
	depth := c.Pick(8, 8)
	c.R.Rule = fmt.Sprintf("ALL sequences of <=%d operations from {Push(low), Push(high), Pop} x %d queues that are alive together: every Pop returns the least element of ITS queue's model, Len and Min agree after every operation, every element's last reported index holds it; non-trivial = sequences in which a queue is pushed to again after it was drained while another queue is non-empty", depth, nq)
	c.Bound("queues", nq)
	c.Bound("depth", depth)
	type elem struct{ v, idx int }
	body := func(r *vx.Run) {
		n := 1 + r.Choose(depth, "len")
		ops := make([]int, n)
		for i := range ops {
			ops[i] = r.Choose(3*nq, "op")
		}
		if r.Scout() {
			return
		}
		qs := make([]*Queue, nq)
		models := make([][]int, nq)
		live := make([]map[*elem]bool, nq)
		for i := range qs {
			qs[i] = NewQueue(func(x, y interface{}) bool { return x.(*elem).v < y.(*elem).v }, func(x interface{}, idx int) { x.(*elem).idx = idx })
			live[i] = map[*elem]bool{}
		}
		msg := ""
		serial := 0
		drained := make([]bool, nq)
		nontrivial := false
		var hist []string
		for _, o := range ops {
			qi, kind := o/3, o%3
			func() {
				defer func() {
					if x := recover(); x != nil {
						msg = fmt.Sprint("panic: ", x)
					}
				}()
				switch kind {
				case 0, 1:
					serial++
					e := &elem{v: (1-kind)*1000 + serial, idx: -1} // kind 0: high value, kind 1: low value
					hist = append(hist, fmt.Sprintf("q%d.Push(%d)", qi, e.v))
					if drained[qi] {
						for j := range qs {
							if j != qi && len(models[j]) > 0 {
								nontrivial = true
							}
						}
					}
					qs[qi].Push(e)
					live[qi][e] = true
					models[qi] = append(models[qi], e.v)
					sort.Ints(models[qi])
				case 2:
					hist = append(hist, fmt.Sprintf("q%d.Pop()", qi))
					if len(models[qi]) == 0 {
						return // Pop of an empty queue is outside the contract
					}
					got := qs[qi].Pop().(*elem)
					if got.v != models[qi][0] {
						msg = fmt.Sprintf("Pop returned %d, the least element of this queue is %d", got.v, models[qi][0])
					}
					if !live[qi][got] && msg == "" {
						msg = fmt.Sprintf("Pop returned %d, which was never pushed into this queue (or was popped before)", got.v)
					}
					delete(live[qi], got)
					models[qi] = models[qi][1:]
					if len(models[qi]) == 0 {
						drained[qi] = true
					}
				}
			}()
			for j := range qs {
				if msg != "" {
					break
				}
				if qs[j].Len() != len(models[j]) {
					msg = fmt.Sprintf("q%d.Len() = %d, model has %d elements", j, qs[j].Len(), len(models[j]))
				} else if len(models[j]) > 0 && qs[j].Min().(*elem).v != models[j][0] {
					msg = fmt.Sprintf("q%d.Min() = %d, model %d", j, qs[j].Min().(*elem).v, models[j][0])
				}
				for e := range live[j] {
					if msg == "" && (e.idx < 0 || e.idx >= len(qs[j].heap.a) || qs[j].heap.a[e.idx] != interface{}(e)) {
						msg = fmt.Sprintf("element %d of q%d was last told index %d, which does not hold it", e.v, j, e.idx)
					}
				}
			}
			if msg != "" {
				break
			}
		}
		r.Note = map[string]interface{}{"id": strings.Join(hist, " "), "msg": msg, "nt": nontrivial}
	}
	e := c.Explorer(0)
	e.SplitDepth = 3
	c.Run(e, body, func(r *vx.Run) {
		if r.Note["nt"].(bool) {
			c.R.Nontrivial++
		}
		if m := r.Note["msg"].(string); m != "" {
			id := r.Note["id"].(string)
			c.Violate("c20_queues:"+strings.ReplaceAll(id, " ", "_"), id+": "+m, r, m)
		}
	})
}
