//go:build verif && go1.21

package pq

import (
	"testing"

	"verifh/vmodel"
	"verifh/vrep"
)

func TestVerif(t *testing.T) {
	api := &vmodel.QueueAPI{
		New: func(less func(x, y interface{}) bool, si func(x interface{}, idx int)) interface{} {
			return NewQueue(less, si)
		},
		Len:    func(q interface{}) int { return q.(*Queue).Len() },
		Push:   func(q interface{}, x interface{}) { q.(*Queue).Push(x) },
		Min:    func(q interface{}) interface{} { return q.(*Queue).Min() },
		Pop:    func(q interface{}) interface{} { return q.(*Queue).Pop() },
		Fix:    func(q interface{}, i int) { q.(*Queue).Fix(i) },
		Remove: func(q interface{}, i int) { q.(*Queue).Remove(i) },
		Array:  func(q interface{}) []interface{} { return q.(*Queue).heap.a },
	}
	vrep.Main(t, "github.com/google/licenseclassifier/stringclassifier/internal/pq", map[string]vrep.Harness{
		"c20_queue_long": func(c *vrep.Ctx) { vmodel.CheckQueueLong(c, api) },
		"c20_queue": func(c *vrep.Ctx) {
			vmodel.CheckQueue(c, &vmodel.QueueAPI{
				New: func(less func(x, y interface{}) bool, si func(x interface{}, idx int)) interface{} {
					return NewQueue(less, si)
				},
				Len:    func(q interface{}) int { return q.(*Queue).Len() },
				Push:   func(q interface{}, x interface{}) { q.(*Queue).Push(x) },
				Min:    func(q interface{}) interface{} { return q.(*Queue).Min() },
				Pop:    func(q interface{}) interface{} { return q.(*Queue).Pop() },
				Fix:    func(q interface{}, i int) { q.(*Queue).Fix(i) },
				Remove: func(q interface{}, i int) { q.(*Queue).Remove(i) },
				Array:  func(q interface{}) []interface{} { return q.(*Queue).heap.a },
			})
		},
	})
}
