//go:build verif && go1.21

package stringclassifier

import (
	"fmt"
	"github.com/google/licenseclassifier/stringclassifier/searchset"
	"io"
	"log"
	"strings"
	"testing"
	"unicode"
	"unicode/utf8"

	"verifh/vrep"
	"verifh/vsync"
	"verifh/vx"
)

// C13: the v1 string classifier finds verbatim occurrences exactly; any value
// is accepted. C14 (concurrency) lives in c14.go.

var vRegistry = map[string]vrep.Harness{}

func TestVerif(t *testing.T) {
	log.SetOutput(io.Discard) // levDist logs zero-sized texts
	vrep.Main(t, "github.com/google/licenseclassifier/stringclassifier", vRegistry)
}

func init() {
	vRegistry["c13_occurrence"] = c13Occurrence
	vRegistry["c13_addvalue"] = c13AddValue
	vRegistry["c13_history"] = c13History
	vRegistry["c13_many"] = c13Many
}

// underSched runs f as thread 0 of a controlled execution with the default
// schedule: the library's goroutines become modelled threads, so a panic in
// one of them is an observation instead of a process crash, and the order in
// which workers push results is fixed.
func underSched(f func()) (panicMsg, deadlock string) {
	var s *vsync.Sched
	vx.Replay(nil, func(r *vx.Run) {
		s = vsync.New(r, vsync.Delay)
		s.Main(f)
	})
	return s.Panic, s.Deadlock
}

func instrumented() bool {
	// with the v1 profile the library's goroutines are modelled threads
	n := 0
	vx.Replay(nil, func(r *vx.Run) {
		s := vsync.New(r, vsync.Delay)
		s.Main(func() {
			c := New(0.8)
			c.AddValue("k", "a b c")
			c.MultipleMatch("x a b c y")
		})
		n = s.Steps
	})
	return n > 2
}

type c13Value struct{ toks []string }

func (v c13Value) text() string { return strings.Join(v.toks, " ") }

func c13Values(alpha []string, maxTok int) []c13Value {
	var out []c13Value
	var rec func(cur []string)
	rec = func(cur []string) {
		if len(cur) > 0 {
			out = append(out, c13Value{append([]string(nil), cur...)})
		}
		if len(cur) == maxTok {
			return
		}
		for _, a := range alpha {
			rec(append(cur, a))
		}
	}
	rec(nil)
	return out
}

func checkMatches(ms Matches, normUnknown string, threshold float64) string {
	for _, m := range ms {
		if !(m.Confidence > 0 && m.Confidence <= 1) {
			return fmt.Sprintf("confidence %v outside (0,1] for %q", m.Confidence, m.Name)
		}
		if m.Offset < 0 || m.Extent < 0 || m.Offset+m.Extent > len(normUnknown) {
			return fmt.Sprintf("Offset/Extent %d/%d of %q outside the normalised unknown (len %d)", m.Offset, m.Extent, m.Name, len(normUnknown))
		}
	}
	return ""
}

// letters whose UTF-8 encoding ends in a byte that is a blank or a punctuation mark in Latin-1
// (0x85, 0xA0, 0xA1, 0xAB, 0xB6, 0xB7, 0xBB, 0xBF), others that do not, and two such bytes alone
var c13GlueLetters = []string{"\u00e0", "\u00f6", "\u0436", "\u00c5", "\u65e0", "\u00e9", "\u65e5", "\u00ab", "\xa0", "\x85"}

func c13Occurrence(c *vrep.Ctx) {
	if !instrumented() {
		panic("c13 needs the v1 instrumentation profile (library goroutines must be modelled threads)")
	}
	alpha := []string{"a", "b", "c", ","}
	maxTok := c.ParamInt("maxtok", c.Pick(3, 4))
	pairTok := c.ParamInt("pairtok", c.Pick(2, 3))
	ctxAlpha := []string{"x", "y", "a", ".", ")"}
	maxCtx := c.ParamInt("maxctx", c.Pick(1, 2))
	single := c13Values(alpha, maxTok)
	small := c13Values(alpha, pairTok)
	ctxs := append([]c13Value{{nil}}, c13Values(ctxAlpha, maxCtx)...)
	ctxShort := append([]c13Value{{nil}}, c13Values(ctxAlpha, 1)...)
	norms := []struct {
		name string
		fn   []NormalizeFunc
		sep  string
	}{{"none", nil, " "}, {"FlattenWhitespace", []NormalizeFunc{FlattenWhitespace}, " \n  "}}
	ts := []float64{0.5, 0.8, 1}
	c.R.Rule = fmt.Sprintf("ALL known-value sets over tokens {a,b,c,','}: every single value of 1..%d tokens, every pair of values of 1..%d tokens (none inside another; second value absent, or both present: separated by an unrelated token, by one blank, glued, or overlapping) and long values of 40/80 tokens and of EVERY length 1..128, alone or next to a registered near-duplicate (one character of one token changed, 40/80/400 tokens, its name sorting before or after) and values with leading / trailing white space (blank, line break, two blanks) x ALL unknowns pre+K+post with pre/post of 0..%d tokens over {x,y,a} containing exactly one occurrence of K (family 'glued' attaches word or punctuation context without a blank: glued punctuation and glued letters - also letters of two or three bytes and stray Latin-1 bytes - are demanded exactly) x normaliser lists {none, FlattenWhitespace with multi-blank separators} x thresholds %v; MultipleMatch must report K with Confidence 1.0 and Offset/Extent of exactly that copy, NearestMatch(K) = (K, 1.0), all confidences in (0,1], all ranges inside the normalised unknown; library goroutines run as modelled threads (default schedule); non-trivial = distinct (value set, unknown, normaliser, threshold) cases", maxTok, pairTok, maxCtx, ts)
	c.Bound("max_value_tokens", maxTok)
	c.Bound("max_context_tokens", maxCtx)
	body := func(r *vx.Run) {
		fam := r.Choose(8, "family") // 0 single value, 1 pair (second value absent), 2 glued context, 3 both values present, 4 long value, 5 long value + registered near-duplicate, 6 value with leading/trailing white space
		lead, trail := "", ""
		join := 0
		name2 := "K2"
		var k1, k2 c13Value
		two := false
		switch fam {
		case 0, 2:
			k1 = single[r.Choose(len(single), "value")]
		case 6:
			// the value itself starts or ends with white space (license texts usually end in a line break)
			k1 = small[r.Choose(len(small), "value")]
			lead = []string{"", " ", "\n"}[r.Choose(3, "leading")]
			trail = []string{"", " ", "\n", "  "}[r.Choose(4, "trailing")]
		case 1, 3:
			k1 = small[r.Choose(len(small), "value1")]
			k2 = small[r.Choose(len(small), "value2")]
			two = true
			if fam == 3 {
				// how the two copies sit next to each other: an unrelated token between them, one blank,
				// nothing at all (glued), or overlapping (a suffix of the first is a prefix of the second)
				join = r.Choose(4, "join")
			}
		case 4:
			// long values (40 / 80 tokens) from a short pattern rotated through the alphabet
			pat := small[r.Choose(len(small), "pattern")]
			n := []int{40, 80}[r.Choose(2, "length")]
			for i := 0; i < n; i++ {
				k1.toks = append(k1.toks, pat.toks[i%len(pat.toks)]+alpha[(i/len(pat.toks))%2])
			}
		case 7:
			// EVERY length 1..128 tokens (ratios of token counts go through floating point: n*(1/n), n/n)
			pat := small[r.Choose(3, "pattern")]
			n := 1 + r.Choose(128, "length")
			for i := 0; i < n; i++ {
				k1.toks = append(k1.toks, pat.toks[i%len(pat.toks)]+alpha[(i/len(pat.toks))%2])
			}
		case 5:
			// a long value and a second registered value that differs from it in one character of one
			// token (confidence of the near-duplicate 0.99+); only the first occurs verbatim; the
			// near-duplicate's name sorts before or after the verbatim value's
			pat := small[r.Choose(c.Pick(4, 12), "pattern")]
			n := []int{40, 80, 400}[r.Choose(3, "length")]
			for i := 0; i < n; i++ {
				k1.toks = append(k1.toks, pat.toks[i%len(pat.toks)]+alpha[(i/len(pat.toks))%2])
			}
			at := []int{0, n / 2, n - 1}[r.Choose(3, "changed token")]
			k2.toks = append([]string(nil), k1.toks...)
			k2.toks[at] = k2.toks[at][:len(k2.toks[at])-1] + "q"
			name2 = []string{"A0", "Z9"}[r.Choose(2, "near-duplicate's name")]
			two = true
		}
		cx := ctxs
		if fam == 4 || fam == 5 || fam == 7 {
			cx = ctxShort // long values: contexts of at most one token
		}
		pre := cx[r.Choose(len(cx), "pre")]
		post := cx[r.Choose(len(cx), "post")]
		ni := r.Choose(len(norms), "normalizers")
		ti := r.Choose(len(ts), "threshold")
		if r.Scout() {
			return
		}
		nm := norms[ni]
		if two && (strings.Contains(k1.text(), k2.text()) || strings.Contains(k2.text(), k1.text())) {
			r.Note = map[string]interface{}{"skip": true}
			return
		}
		var parts []string
		if len(pre.toks) > 0 {
			parts = append(parts, strings.Join(pre.toks, nm.sep))
		}
		val1 := lead + strings.Join(k1.toks, nm.sep) + trail
		if fam == 6 && lead == "" && trail == "" {
			r.Note = map[string]interface{}{"skip": true}
			return
		}
		parts = append(parts, strings.Join(k1.toks, nm.sep))
		if fam == 3 {
			switch join {
			case 0: // both values present, separated by an unrelated token
				parts = append(parts, "zq", strings.Join(k2.toks, nm.sep))
			case 1: // adjacent, one separator
				parts = append(parts, strings.Join(k2.toks, nm.sep))
			case 2: // glued: the second copy starts where the first ends
				parts[len(parts)-1] += strings.Join(k2.toks, nm.sep)
			case 3: // overlapping: longest proper suffix of k1 that is a prefix of k2
				ov := 0
				for n := 1; n < len(k1.toks) && n < len(k2.toks); n++ {
					if strings.Join(k1.toks[len(k1.toks)-n:], " ") == strings.Join(k2.toks[:n], " ") {
						ov = n
					}
				}
				if ov == 0 {
					r.Note = map[string]interface{}{"skip": true}
					return
				}
				parts = append(parts, strings.Join(k2.toks[ov:], nm.sep))
			}
		}
		if len(post.toks) > 0 {
			parts = append(parts, strings.Join(post.toks, nm.sep))
		}
		unknown := strings.Join(parts, nm.sep)
		if fam == 6 {
			// context separated by a single blank from the value's own white space (or nothing at the ends)
			unknown = val1
			if len(pre.toks) > 0 {
				unknown = strings.Join(pre.toks, " ") + " " + unknown
			}
			if len(post.toks) > 0 {
				unknown = unknown + " " + strings.Join(post.toks, " ")
			}
		}
		if fam == 2 {
			if len(pre.toks) == 0 && len(post.toks) == 0 {
				r.Note = map[string]interface{}{"skip": true}
				return
			}
			// for short values: the character the copy is glued to (in front and behind) may also be a
			// letter of two or three bytes, or a stray byte of Latin-1 (what a byte-wise look at the
			// neighbour would take for a blank or a punctuation mark)
			preT, postT := append([]string(nil), pre.toks...), append([]string(nil), post.toks...)
			if len(k1.toks) <= 2 {
				if g := r.Choose(len(c13GlueLetters)+1, "glue letter"); g > 0 {
					if len(preT) > 0 {
						preT[len(preT)-1] = c13GlueLetters[g-1]
					}
					if len(postT) > 0 {
						postT[0] = c13GlueLetters[g-1]
					}
				}
			}
			unknown = strings.Join(preT, nm.sep) + strings.Join(k1.toks, nm.sep) + strings.Join(postT, nm.sep)
		}
		cl := New(ts[ti], nm.fn...)
		id := fmt.Sprintf("values{%q", lead+k1.text()+trail)
		if err := cl.AddValue("K1", val1); err != nil {
			panic(err)
		}
		if two {
			cl.AddValue(name2, strings.Join(k2.toks, nm.sep))
			id += fmt.Sprintf(",%q", k2.text())
		}
		id += fmt.Sprintf("} unknown %q norm=%s T=%v", unknown, nm.name, ts[ti])
		normU := cl.normalize(unknown)
		normK := cl.normalize(val1)
		normK2 := ""
		if two {
			normK2 = cl.normalize(strings.Join(k2.toks, nm.sep))
		}
		if strings.Count(normU, normK) != 1 || (two && fam == 1 && strings.Contains(normU, normK2)) || (fam == 3 && strings.Count(normU, normK2) != 1) {
			r.Note = map[string]interface{}{"skip": true}
			return
		}
		if fam == 3 {
			// the two occurrences must not overlap (join 0-2) / must overlap (join 3)
			a2 := strings.Index(normU, normK2)
			a1 := strings.Index(normU, normK)
			if (a1 < a2+len(normK2) && a2 < a1+len(normK)) != (join == 3) {
				r.Note = map[string]interface{}{"skip": true}
				return
			}
		}
		at := strings.Index(normU, normK)
		var ms Matches
		var near *Match
		p, d := underSched(func() {
			ms = cl.MultipleMatch(unknown)
			near = cl.NearestMatch(val1)
		})
		msg := ""
		onlyMisaligned := false
		overlapOnly := false
		switch {
		case p != "":
			msg = "panic: " + p
		case d != "":
			msg = d
		default:
			found := false
			for _, m := range ms {
				if m.Name == "K1" && m.Confidence == 1.0 && m.Offset == at && m.Extent == len(normK) {
					found = true
				}
			}
			if found && fam == 3 {
				at2 := strings.Index(normU, normK2)
				found2 := false
				for _, m := range ms {
					if m.Name == "K2" && m.Confidence == 1.0 && m.Offset == at2 && m.Extent == len(normK2) {
						found2 = true
					}
				}
				if !found2 {
					found = false
					at, normK = at2, normK2
				}
			}
			if fam == 3 && join == 3 {
				// recorded finding (uniquify drops a match whose Offset lies inside an accepted one, also when
				// it is not contained in it): exactly one of the two overlapping copies is reported, exactly
				// as demanded, and nothing is reported for the other value
				n1, n2, ok1, ok2 := 0, 0, false, false
				a1, a2 := strings.Index(normU, cl.normalize(val1)), strings.Index(normU, normK2)
				for _, m := range ms {
					if m.Name == "K1" {
						n1++
						ok1 = m.Confidence == 1.0 && m.Offset == a1 && m.Extent == len(cl.normalize(val1))
					}
					if m.Name == "K2" {
						n2++
						ok2 = m.Confidence == 1.0 && m.Offset == a2 && m.Extent == len(normK2)
					}
				}
				overlapOnly = (n1 == 1 && ok1 && n2 == 0) || (n2 == 1 && ok2 && n1 == 0)
			}
			if !found {
				var got []string
				for _, m := range ms {
					got = append(got, fmt.Sprintf("%s conf=%v off=%d ext=%d", m.Name, m.Confidence, m.Offset, m.Extent))
				}
				msg = fmt.Sprintf("MultipleMatch did not report the value with Confidence 1.0 at Offset %d Extent %d; got %v", at, len(normK), got)
				// mechanism of the recorded finding (glued copies): nothing else is wrong, and every
				// report of K1 covers the copy and stays within the blank-delimited tokens enclosing it
				onlyMisaligned = checkMatches(ms, normU, ts[ti]) == "" && near != nil && near.Name == "K1" && near.Confidence == 1.0
				lo, hi := at, at+len(normK)
				for lo > 0 && normU[lo-1] != ' ' && normU[lo-1] != '\n' {
					lo--
				}
				for hi < len(normU) && normU[hi] != ' ' && normU[hi] != '\n' {
					hi++
				}
				for _, m := range ms {
					if m.Name == "K1" && !(m.Offset >= lo && m.Offset <= at && m.Offset+m.Extent >= at+len(normK) && m.Offset+m.Extent <= hi) {
						onlyMisaligned = false
					}
				}
			} else if m := checkMatches(ms, normU, ts[ti]); m != "" {
				msg = m
			} else if near == nil || near.Name != "K1" || near.Confidence != 1.0 {
				msg = fmt.Sprintf("NearestMatch(K1) = %+v, want K1 with Confidence 1.0", near)
			}
		}
		// token alignment of the occurrence (reference notion: a token boundary is the string end, a
		// blank, or a punctuation character on either side)
		isB := func(r rune) bool { return unicode.IsSpace(r) || unicode.IsPunct(r) }
		aligned := true
		if at > 0 {
			prev, _ := utf8.DecodeLastRuneInString(normU[:at])
			first, _ := utf8.DecodeRuneInString(normK)
			aligned = aligned && (isB(prev) || isB(first))
		}
		if end := at + len(normK); end < len(normU) {
			next, _ := utf8.DecodeRuneInString(normU[end:])
			last, _ := utf8.DecodeLastRuneInString(normK)
			aligned = aligned && (isB(next) || isB(last))
		}
		r.Note = map[string]interface{}{"id": id, "msg": msg, "fam": fam, "k1": k1.text(), "aligned": aligned, "onlyMisaligned": onlyMisaligned, "overlapOnly": overlapOnly, "join": join}
	}
	c.Run(vSplitExplorer(c, 0, 2), body, func(r *vx.Run) {
		if r.Note["skip"] != nil {
			c.R.Evaluations--
			return
		}
		id := r.Note["id"].(string)
		c.R.Nontrivial++
		if c.R.Nontrivial%3000 == 1 {
			c.Sample(id)
		}
		if m := r.Note["msg"].(string); m != "" {
			key := "c13:" + strings.ReplaceAll(id, " ", "_")
			if r.Note["fam"].(int) == 2 && !r.Note["aligned"].(bool) && r.Note["onlyMisaligned"].(bool) {
				key = "c13:class:glued-occurrence-not-token-aligned"
			}
			if r.Note["fam"].(int) == 3 && r.Note["join"].(int) == 3 && r.Note["overlapOnly"].(bool) {
				key = "c13:class:overlapping-copies-second-dropped"
			}
			c.Violate(key, id+": "+m, r, m)
		} else {
			c.Outcome("found")
		}
	})
}

func vSplitExplorer(c *vrep.Ctx, budget, depth int) *vx.Explorer {
	e := c.Explorer(budget)
	e.SplitDepth = depth
	return e
}

func c13AddValue(c *vrep.Ctx) {
	if !instrumented() {
		panic("c13 needs the v1 instrumentation profile")
	}
	syms := []string{"a", " ", "(", ")", "[", "*", "+", "?", "\\", ".", "|", "{", "^", "$", "é", "\xff", "b", "\ufffd"}
	maxLen := c.Pick(3, 4)
	c.R.Rule = fmt.Sprintf("ALL strings of 1..%d symbols over %q registered with AddValue (no normalisers, and FlattenWhitespace): never panics; NearestMatch(value) returns it with Confidence 1.0; MultipleMatch(\"x \"+value+\" y\") reports it with Confidence 1.0 and the exact Offset/Extent when the value contains a non-blank; a second literal-different string that the value would match as a regular expression must not be reported as an exact occurrence; non-trivial = distinct strings", maxLen, syms)
	c.Bound("max_symbols", maxLen)
	body := func(r *vx.Run) {
		n := 1 + r.Choose(maxLen, "len")
		var sb strings.Builder
		for i := 0; i < n; i++ {
			sb.WriteString(syms[r.Choose(len(syms), "sym")])
		}
		if r.Scout() {
			return
		}
		v := sb.String()
		msg := ""
		for _, fn := range [][]NormalizeFunc{nil, {FlattenWhitespace}} {
			cl := New(0.8, fn...)
			var err error
			p, d := underSched(func() {
				err = cl.AddValue("V", v)
			})
			if p != "" || d != "" || err != nil {
				msg = fmt.Sprintf("AddValue: panic=%q deadlock=%q err=%v", p, d, err)
				break
			}
			norm := cl.normalize(v)
			if strings.TrimSpace(norm) == "" {
				continue
			}
			unknown := "x " + v + " y"
			normU := cl.normalize(unknown)
			var ms Matches
			var near *Match
			p, d = underSched(func() {
				near = cl.NearestMatch(v)
				ms = cl.MultipleMatch(unknown)
			})
			if p != "" || d != "" {
				msg = fmt.Sprintf("panic=%q deadlock=%q", p, d)
				break
			}
			if near == nil || near.Name != "V" || near.Confidence != 1.0 {
				msg = fmt.Sprintf("NearestMatch(value) = %+v", near)
				break
			}
			if m := checkMatches(ms, normU, 0.8); m != "" {
				msg = m
				break
			}
			// the same text as it reads after a lossy conversion: every invalid byte written out as
			// U+FFFD and the other way round (byte lengths differ): whatever is reported lies inside it
			if swapped := strings.NewReplacer("\xff", "\ufffd", "\ufffd", "\xff").Replace(v); swapped != v {
				for _, u2 := range []string{"x " + swapped + " y", swapped, "x" + swapped} {
					var ms2 Matches
					p, d = underSched(func() { ms2 = cl.MultipleMatch(u2) })
					if p != "" || d != "" {
						msg = fmt.Sprintf("MultipleMatch(%q): panic=%q deadlock=%q", u2, p, d)
						break
					}
					if m := checkMatches(ms2, cl.normalize(u2), 0.8); m != "" {
						msg = fmt.Sprintf("MultipleMatch(%q): %s", u2, m)
						break
					}
				}
				if msg != "" {
					break
				}
			}
			// exact occurrence (token aligned only when the value starts and ends with a token character)
			aligned := !strings.HasPrefix(norm, " ") && !strings.HasSuffix(norm, " ")
			if aligned && strings.Count(normU, norm) == 1 {
				at := strings.Index(normU, norm)
				found := false
				for _, m := range ms {
					if m.Name == "V" && m.Confidence == 1.0 && m.Offset == at && m.Extent == len(norm) {
						found = true
					}
				}
				if !found {
					var got []string
					for _, m := range ms {
						got = append(got, fmt.Sprintf("%s conf=%v off=%d ext=%d", m.Name, m.Confidence, m.Offset, m.Extent))
					}
					msg = fmt.Sprintf("MultipleMatch(%q) did not report the value with Confidence 1.0 at %d/%d; got %v", unknown, at, len(norm), got)
					break
				}
			}
		}
		r.Note = map[string]interface{}{"v": v, "msg": msg}
	}
	c.Run(vSplitExplorer(c, 0, 3), body, func(r *vx.Run) {
		v := r.Note["v"].(string)
		c.R.Nontrivial++
		if c.R.Nontrivial%5000 == 1 {
			c.Sample(fmt.Sprintf("%q", v))
		}
		if m := r.Note["msg"].(string); m != "" {
			c.Violate(fmt.Sprintf("c13_addvalue:%q", v), fmt.Sprintf("value %q: %s", v, m), r, m)
		}
	})
}

// c13History: every sequence of up to three NearestMatch / MultipleMatch calls on ONE classifier;
// each call must return exactly what the same call returns on a fresh classifier with the same
// values (nothing of an earlier query may survive into a later one), and the C13 range conditions.
func c13History(c *vrep.Ctx) {
	if !instrumented() {
		panic("c13 needs the v1 instrumentation profile")
	}
	one := "the quick brown fox jumps over the lazy dog and runs far away from the angry farmer today"
	two := "the quick brown fox jumps over the lazy cat and runs far away from the angry farmer tonight"
	three := "lorem ipsum dolor"
	vals := [][2]string{{"one", one}, {"two", two}, {"three", three}}
	unknowns := []string{
		one,
		strings.Replace(one, "jumps", "leaps", 1),
		"x y " + strings.Replace(two, "brown", "red", 1) + " and so on and so forth for quite a while longer",
		three + " y",
		"nothing of the kind",
		strings.Replace(one, "lazy dog", "lazy", 1) + " " + three,
	}
	maxOps := c.Pick(3, 4)
	ts := []float64{0.5, 0.8}
	mk := func(t float64) *Classifier {
		cl := New(t, FlattenWhitespace)
		for _, v := range vals {
			if err := cl.AddValue(v[0], v[1]); err != nil {
				panic(err)
			}
		}
		return cl
	}
	// what the caller holds on to from the previous call (rendered again after the next one)
	var heldNM *Match
	var heldMM Matches
	renderHeld := func() string {
		out := "held:"
		if heldNM != nil {
			out += fmt.Sprintf(" NM %+v", *heldNM)
		}
		for _, m := range heldMM {
			out += fmt.Sprintf(" %+v", *m)
		}
		return out
	}
	run := func(cl *Classifier, op int) string {
		u := unknowns[op/2]
		var out string
		p, d := underSched(func() {
			if op%2 == 0 {
				m := cl.NearestMatch(u)
				heldNM, heldMM = m, nil
				if m != nil {
					out = fmt.Sprintf("NM %+v", *m)
				} else {
					out = "NM nil"
				}
			} else {
				ms := cl.MultipleMatch(u)
				heldNM, heldMM = nil, ms
				out = "MM"
				for _, m := range ms {
					out += fmt.Sprintf(" %+v", *m)
				}
				if e := checkMatches(ms, cl.normalize(u), cl.threshold); e != "" {
					out += " RANGE: " + e
				}
			}
		})
		if p != "" || d != "" {
			return fmt.Sprintf("panic=%q deadlock=%q", p, d)
		}
		return out
	}
	// operations 2*len(unknowns).. : registering a further value (AddValue / AddPrecomputedValue) in the
	// middle of the history; the last unknown contains it
	extraVal := "pack my box with five dozen liquor jugs"
	unknowns = append(unknowns, "well "+extraVal+" indeed")
	nq := 2 * len(unknowns)
	nops := nq + 2
	fresh := map[string]string{}
	addExtra := func(cl *Classifier, op int) {
		if op == nq {
			cl.AddValue("extra", extraVal)
		} else {
			cl.AddPrecomputedValue("extra", extraVal, searchset.New(cl.normalize(extraVal), searchset.DefaultGranularity))
		}
	}
	// reference results: a fresh classifier, without / with the extra value (registered either way)
	for ti, t := range ts {
		for op := 0; op < nq; op++ {
			fresh[fmt.Sprint(ti, op, 0)] = run(mk(t), op)
			for _, how := range []int{nq, nq + 1} {
				cl := mk(t)
				addExtra(cl, how)
				fresh[fmt.Sprint(ti, op, how)] = run(cl, op)
			}
		}
	}
	c.R.Rule = fmt.Sprintf("ALL sequences of 1..%d calls from {NearestMatch, MultipleMatch} x %d unknown texts and {AddValue, AddPrecomputedValue} of one further value (exact value, near values of similar and of greater length, a short value with context, unrelated text, two values in one text) on ONE classifier with three values (two of them similar) x thresholds %v: every call returns exactly what it returns on a fresh classifier, what the previous call returned does not change during the next one, and every Offset/Extent lies inside its own normalised unknown; non-trivial = distinct sequences", maxOps, len(unknowns), ts)
	c.Bound("max_calls", maxOps)
	body := func(r *vx.Run) {
		ti := r.Choose(len(ts), "threshold")
		n := 1 + r.Choose(maxOps, "len")
		ops := make([]int, n)
		for i := range ops {
			ops[i] = r.Choose(nops, "op")
		}
		if r.Scout() {
			return
		}
		cl := mk(ts[ti])
		msg := ""
		added := 0
		for i, op := range ops {
			if op >= nq {
				if added == 0 {
					addExtra(cl, op)
					added = op
				}
				continue
			}
			before := renderHeld()
			keepNM, keepMM := heldNM, heldMM
			got := run(cl, op)
			if i > 0 {
				nowNM, nowMM := heldNM, heldMM
				heldNM, heldMM = keepNM, keepMM
				if after := renderHeld(); after != before {
					msg = fmt.Sprintf("what call %d returned changed during call %d: was %s, is %s", i-1, i, before, after)
					break
				}
				heldNM, heldMM = nowNM, nowMM
			}
			if strings.Contains(got, " RANGE: ") || strings.HasPrefix(got, "panic=") {
				msg = fmt.Sprintf("call %d: %s", i, got)
				break
			}
			if want := fresh[fmt.Sprint(ti, op, added)]; got != want {
				msg = fmt.Sprintf("call %d returns %s but on a fresh classifier %s", i, got, want)
				break
			}
		}
		r.Note = map[string]interface{}{"id": fmt.Sprintf("T%v:%v", ts[ti], ops), "msg": msg}
	}
	c.Run(vSplitExplorer(c, 0, 3), body, func(r *vx.Run) {
		c.R.Nontrivial++
		id := r.Note["id"].(string)
		if c.R.Nontrivial%200 == 1 {
			c.Sample(id)
		}
		if m := r.Note["msg"].(string); m != "" {
			c.Violate("c13_history:"+id, fmt.Sprintf("calls %s (op 2i = NearestMatch(unknown i), 2i+1 = MultipleMatch(unknown i)): %s", id, m), r, m)
		}
	})
}

// c13Many: EVERY number 1..N of registered values; the unknown text holds one token-aligned
// verbatim copy of each (separated by unrelated words), in registration order or reversed;
// every copy must be reported with Confidence 1.0 at exactly its place, and NearestMatch of
// every value must return it.
func c13Many(c *vrep.Ctx) {
	if !instrumented() {
		panic("c13 needs the v1 instrumentation profile")
	}
	maxN := c.Pick(70, 300)
	val := func(i int) string {
		s := fmt.Sprintf("%c%c%c", 'a'+i%26, 'a'+(i/26)%26, 'a'+i/676)
		return "grant" + s + " of rights" + s + " under terms" + s
	}
	c.R.Rule = fmt.Sprintf("EVERY number 1..%d of registered three-word-style values x unknown text with one verbatim copy of each (in registration order / reversed) x thresholds {0.5, 0.8}: MultipleMatch reports every copy with Confidence 1.0 and its exact Offset/Extent, all ranges inside the unknown, and NearestMatch(value i) = (value i, 1.0) for the first, middle and last value; non-trivial = all cases", maxN)
	c.Bound("max_values", maxN)
	ts := []float64{0.5, 0.8}
	body := func(r *vx.Run) {
		n := 1 + r.Choose(maxN, "values")
		rev := r.Choose(2, "order") == 1
		ti := r.Choose(len(ts), "threshold")
		if r.Scout() {
			return
		}
		cl := New(ts[ti], FlattenWhitespace)
		for i := 0; i < n; i++ {
			if err := cl.AddValue(fmt.Sprintf("V%03d", i), val(i)); err != nil {
				panic(err)
			}
		}
		var parts []string
		for i := 0; i < n; i++ {
			k := i
			if rev {
				k = n - 1 - i
			}
			parts = append(parts, val(k))
		}
		unknown := "intro " + strings.Join(parts, " zzsep ") + " outro"
		normU := cl.normalize(unknown)
		var ms Matches
		near := map[int]*Match{}
		p, d := underSched(func() {
			ms = cl.MultipleMatch(unknown)
			for _, i := range []int{0, n / 2, n - 1} {
				near[i] = cl.NearestMatch(val(i))
			}
		})
		msg := ""
		switch {
		case p != "" || d != "":
			msg = fmt.Sprintf("panic=%q deadlock=%q", p, d)
		default:
			msg = checkMatches(ms, normU, ts[ti])
			for i := 0; i < n && msg == ""; i++ {
				at := strings.Index(normU, cl.normalize(val(i)))
				found := false
				for _, m := range ms {
					if m.Name == fmt.Sprintf("V%03d", i) && m.Confidence == 1.0 && m.Offset == at && m.Extent == len(cl.normalize(val(i))) {
						found = true
					}
				}
				if !found {
					msg = fmt.Sprintf("value %d of %d (%q, verbatim at %d) is not reported with Confidence 1.0 at its place (%d matches returned)", i, n, val(i), at, len(ms))
				}
			}
			for i, m := range near {
				if msg == "" && (m == nil || m.Name != fmt.Sprintf("V%03d", i) || m.Confidence != 1.0) {
					msg = fmt.Sprintf("NearestMatch(value %d of %d) = %+v", i, n, m)
				}
			}
		}
		r.Note = map[string]interface{}{"id": fmt.Sprintf("%d values reversed=%v T=%v", n, rev, ts[ti]), "msg": msg}
	}
	c.Run(vSplitExplorer(c, 0, 1), body, func(r *vx.Run) {
		c.R.Nontrivial++
		if m := r.Note["msg"].(string); m != "" {
			id := r.Note["id"].(string)
			c.Violate("c13_many:"+strings.ReplaceAll(id, " ", "_"), id+": "+m, r, m)
		}
	})
}
