//go:build verif && go1.21

package searchset

import (
	"fmt"
	"strings"
	"testing"

	"verifh/vrep"
	"verifh/vx"
)

// C17 (second half): every candidate FindPotentialMatches returns is non-empty,
// ordered by target position, inside the target's token bounds and converts
// to a byte range with start <= end inside the target string.

func TestVerif(t *testing.T) {
	vrep.Main(t, "github.com/google/licenseclassifier/stringclassifier/searchset", map[string]vrep.Harness{"c17_candidates": c17Candidates, "c17_large": c17Large})
}

// c17Granularity: the second argument of New (job parameter granularity=N; the package default is 3).
var c17Granularity = DefaultGranularity

func c17Pair(source, target string) string {
	msg := ""
	func() {
		defer func() {
			if x := recover(); x != nil {
				msg = fmt.Sprint("panic: ", x)
			}
		}()
		src := New(source, c17Granularity)
		tgt := New(target, c17Granularity)
		cands := FindPotentialMatches(src, tgt)
		for ci, mr := range cands {
			if len(mr) == 0 {
				msg = fmt.Sprintf("candidate %d is empty", ci)
				return
			}
			for i, m := range mr {
				if m.TargetStart < 0 || m.TargetStart >= m.TargetEnd || m.TargetEnd > len(tgt.Tokens) {
					msg = fmt.Sprintf("candidate %d range %d: target tokens [%d,%d) outside 0..%d", ci, i, m.TargetStart, m.TargetEnd, len(tgt.Tokens))
					return
				}
				if i > 0 && m.TargetStart < mr[i-1].TargetStart {
					msg = fmt.Sprintf("candidate %d: range %d starts at target token %d before range %d at %d (not ordered by target position)", ci, i, m.TargetStart, i-1, mr[i-1].TargetStart)
					return
				}
			}
			start, end := mr.TargetRange(tgt)
			if start < 0 || start > end || end > len(target) {
				msg = fmt.Sprintf("candidate %d: byte range [%d,%d) not inside the target (len %d)", ci, start, end, len(target))
				return
			}
			_ = target[start:end]
		}
	}()
	return msg
}

func c17Candidates(c *vrep.Ctx) {
	alpha := []string{"a", "b", ","}
	c17Granularity = c.ParamInt("granularity", DefaultGranularity)
	c.Bound("granularity", c17Granularity)
	maxSrc, maxTgt := c.Pick(5, 6), c.Pick(6, 8)
	if c.Param("alphabet", "") == "ab" {
		// two-word vocabulary: longer, maximally repetitive sequences
		alpha = []string{"a", "b"}
		maxSrc, maxTgt = c.ParamInt("src", c.Pick(12, 13)), c.ParamInt("tgt", c.Pick(7, 9))
	}
	c.R.Rule = fmt.Sprintf("ALL (source, target) token-sequence pairs over %v: sources of 1..%d tokens x targets of 1..%d tokens (highly repetitive, low vocabulary), blank separated; every candidate of FindPotentialMatches is checked for non-emptiness, target order, token bounds and byte range; non-trivial = pairs with at least one candidate", alpha, maxSrc, maxTgt)
	c.Bound("max_source_tokens", maxSrc)
	c.Bound("max_target_tokens", maxTgt)
	body := func(r *vx.Run) {
		ns := 1 + r.Choose(maxSrc, "srclen")
		src := make([]string, ns)
		for i := range src {
			src[i] = alpha[r.Choose(len(alpha), "s")]
		}
		nt := 1 + r.Choose(maxTgt, "tgtlen")
		tgt := make([]string, nt)
		for i := range tgt {
			tgt[i] = alpha[r.Choose(len(alpha), "t")]
		}
		if r.Scout() {
			return
		}
		s, t := strings.Join(src, " "), strings.Join(tgt, " ")
		msg := c17Pair(s, t)
		nc := 0
		if msg == "" {
			nc = len(FindPotentialMatches(New(s, c17Granularity), New(t, c17Granularity)))
		}
		r.Note = map[string]interface{}{"s": s, "t": t, "msg": msg, "nc": nc}
	}
	e := c.Explorer(0)
	e.SplitDepth = 4
	c.Run(e, body, func(r *vx.Run) {
		if r.Note["nc"].(int) > 0 {
			c.R.Nontrivial++
			if c.R.Nontrivial%100000 == 1 {
				c.Sample(map[string]interface{}{"source": r.Note["s"], "target": r.Note["t"], "candidates": r.Note["nc"]})
			}
		}
		if m := r.Note["msg"].(string); m != "" {
			c.Violate(fmt.Sprintf("c17_candidates:%q|%q", r.Note["s"], r.Note["t"]), fmt.Sprintf("source %q target %q: %s", r.Note["s"], r.Note["t"], m), r, m)
		}
	})
}

// c17Large: targets of more than 2^16 (and 2^17) tokens. The source is A + 5 unrelated words + B
// (30 distinct words each); the target is a long run of filler words with A and B planted at
// positions on both sides of, and straddling, the multiples of 65536 (token positions, offsets and
// counts that are packed, truncated or narrowed somewhere only show there).
func c17Large(c *vrep.Ctx) {
	word := func(p string, i int) string { return p + string(rune('a'+i%26)) + string(rune('a'+(i/26)%26)) }
	var a, b, gap []string
	for i := 0; i < 30; i++ {
		a = append(a, word("a", i))
		b = append(b, word("b", i))
	}
	for i := 0; i < 5; i++ {
		gap = append(gap, word("g", i))
	}
	source := strings.Join(a, " ") + " " + strings.Join(gap, " ") + " " + strings.Join(b, " ")
	sizes := []int{66000, 140000}
	c.R.Rule = fmt.Sprintf("targets of %v filler tokens (all distinct) with the two halves A, B of a 65-token source planted at every pair of positions from a menu around 0, 2000, 65536 and 131072 (before, straddling, after), in both orders; the candidates of FindPotentialMatches are checked as in c17_candidates (non-empty, target order, token bounds, byte range start<=end inside the target); non-trivial = cases with a candidate", sizes)
	var cases [][3]int
	for si, n := range sizes {
		pos := []int{0, 2000, 65500, 65521, 65536, 65636}
		if n > 131200 {
			pos = append(pos, 131060, 131072, 131100)
		}
		for _, pa := range pos {
			for _, pb := range pos {
				if pa != pb && (pa+40 < pb || pb+40 < pa) {
					cases = append(cases, [3]int{si, pa, pb})
				}
			}
		}
	}
	c.Bound("cases", len(cases))
	body := func(r *vx.Run) {
		cs := cases[r.Choose(len(cases), "case")]
		if r.Scout() {
			return
		}
		n, pa, pb := sizes[cs[0]], cs[1], cs[2]
		toks := make([]string, n)
		for i := range toks {
			toks[i] = "f" + string(rune('a'+i%26)) + string(rune('a'+(i/26)%26)) + string(rune('a'+(i/676)%26)) + string(rune('a'+(i/17576)%26))
		}
		copy(toks[pa:], a)
		copy(toks[pb:], b)
		msg := c17Pair(source, strings.Join(toks, " "))
		r.Note = map[string]interface{}{"id": fmt.Sprintf("target of %d tokens, A at %d, B at %d", n, pa, pb), "msg": msg}
	}
	c.Run(c.Explorer(0), body, func(r *vx.Run) {
		id := r.Note["id"].(string)
		c.Nontrivial(id)
		c.Sample(id)
		if m := r.Note["msg"].(string); m != "" {
			c.Violate("c17_large:"+strings.ReplaceAll(id, " ", "_"), id+": "+m, r, m)
		}
	})
}
