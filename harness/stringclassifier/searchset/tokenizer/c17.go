//go:build verif && go1.21

package tokenizer

import (
	"fmt"
	"strings"
	"testing"
	"unicode"
	"unicode/utf8"

	"verifh/vrep"
	"verifh/vx"
)

// C17 (first half): token offsets reproduce each token's text from the
// original string, increase, do not overlap and cover every non-space rune.

func TestVerif(t *testing.T) {
	vrep.Main(t, "github.com/google/licenseclassifier/stringclassifier/searchset/tokenizer", map[string]vrep.Harness{"c17_tokens": c17Tokens, "c17_longwords": c17LongWords, "c17_runes": c17Runes, "c17_longtext": c17LongText})
}

func c17Check(s string) string {
	var toks Tokens
	if msg := func() (m string) {
		defer func() {
			if x := recover(); x != nil {
				m = fmt.Sprint("panic: ", x)
			}
		}()
		toks = Tokenize(s)
		return ""
	}(); msg != "" {
		return msg
	}
	covered := make([]bool, len(s))
	prevEnd := 0
	for i, t := range toks {
		if t.Offset < 0 || t.Offset+len(t.Text) > len(s) {
			return fmt.Sprintf("token %d (%q at %d) does not lie inside the string", i, t.Text, t.Offset)
		}
		if s[t.Offset:t.Offset+len(t.Text)] != t.Text {
			return fmt.Sprintf("token %d: recorded text %q but s[%d:%d] = %q", i, t.Text, t.Offset, t.Offset+len(t.Text), s[t.Offset:t.Offset+len(t.Text)])
		}
		if len(t.Text) == 0 {
			return fmt.Sprintf("token %d is empty", i)
		}
		if t.Offset < prevEnd {
			return fmt.Sprintf("token %d at offset %d overlaps the previous token ending at %d (or is out of order)", i, t.Offset, prevEnd)
		}
		prevEnd = t.Offset + len(t.Text)
		for j := t.Offset; j < prevEnd; j++ {
			covered[j] = true
		}
	}
	for i := 0; i < len(s); {
		r, size := utf8.DecodeRuneInString(s[i:])
		if !unicode.IsSpace(r) {
			for j := i; j < i+size; j++ {
				if !covered[j] {
					return fmt.Sprintf("non-space character at byte %d is not covered by any token", j)
				}
			}
		}
		i += size
	}
	return ""
}

func c17Tokens(c *vrep.Ctx) {
	syms := []string{"a", "b", " ", "\n", ",", "(", "é", "世", "—", "\xff", "\xc3", " ", "."}
	maxLen := c.Pick(5, 6)
	if c.Param("alphabet", "") == "classes" {
		// one representative per Unicode general category a tokenizer might single out: format
		// characters (soft hyphen, zero width space, BOM), combining mark, digit, other number, currency,
		// math, modifier and other symbols, line separator, private use, control characters; plus the replacement character written out (valid UTF-8 decoding to utf8.RuneError) and a 4-byte character
		syms = []string{"a", " ", "\u00ad", "\u200b", "\ufeff", "\u0301", "1", "\u00b2", "$", "+", "^", "\u00a9", "\u2028", "\ue000", "\x01", "\t", "-", "\u2060", "\ufffd", "\U0001F600"}
		maxLen = c.Pick(4, 5)
	}
	c.R.Rule = fmt.Sprintf("ALL strings of <=%d symbols over %q (ASCII, punctuation, 2- and 3-byte runes, Unicode punctuation/space, invalid UTF-8 bytes); oracle: s[Offset:Offset+len(Text)] == Text, strictly increasing non-overlapping offsets, every non-space rune covered; non-trivial = distinct strings with at least two tokens", maxLen, syms)
	c.Bound("max_symbols", maxLen)
	body := func(r *vx.Run) {
		n := r.Choose(maxLen+1, "len")
		var sb strings.Builder
		for i := 0; i < n; i++ {
			sb.WriteString(syms[r.Choose(len(syms), "sym")])
		}
		if r.Scout() {
			return
		}
		s := sb.String()
		r.Note = map[string]interface{}{"s": s, "msg": c17Check(s), "nt": len(Tokenize(s))}
	}
	e := c.Explorer(0)
	e.SplitDepth = 3
	c.Run(e, body, func(r *vx.Run) {
		s := r.Note["s"].(string)
		if r.Note["nt"].(int) >= 2 {
			c.R.Nontrivial++
			if c.R.Nontrivial%50000 == 1 {
				c.Sample(fmt.Sprintf("%q", s))
			}
		}
		if m := r.Note["msg"].(string); m != "" {
			// identity: the string reduced to its shortest failing suffix-free form is itself at this scope
			c.Violate(fmt.Sprintf("c17_tokens:%q", c17Min(s)), fmt.Sprintf("string %q: %s", s, m), r, m)
		}
	})
}

// c17Min deletes runes (bytes) while the string keeps failing.
func c17Min(s string) string {
	for changed := true; changed; {
		changed = false
		for i := 0; i < len(s); i++ {
			cand := s[:i] + s[i+1:]
			if c17Check(cand) != "" {
				s = cand
				changed = true
				break
			}
		}
	}
	return s
}

// c17LongWords: ONE long word (no blank, no punctuation) of every length: an ASCII lead of 0..3
// bytes, then a 1-, 2-, 3- or 4-byte letter repeated 0..N times, optionally followed by another
// word; the same oracle.
func c17LongWords(c *vrep.Ctx) {
	letters := []string{"a", "\u00e9", "\u4e16", "\U00020000"}
	maxRep := c.Pick(700, 20000)
	tails := []string{"", " b", ",b"}
	c.R.Rule = fmt.Sprintf("single words: ASCII lead of 0..3 bytes + a 1/2/3/4-byte letter repeated EVERY count 0..%d (thorough: and around 2^12..2^16 bytes) + tail in %q; oracle as c17_tokens; non-trivial = all cases", 700, tails)
	c.Bound("max_repetitions", maxRep)
	var counts []int
	for n := 0; n <= 700; n++ {
		counts = append(counts, n)
	}
	if c.Thorough() {
		for _, b := range []int{1024, 4096, 16384, 65536} {
			for d := -4; d <= 4; d++ {
				for _, w := range []int{1, 2, 3, 4} {
					counts = append(counts, (b+d)/w)
				}
			}
		}
	}
	body := func(r *vx.Run) {
		lead := r.Choose(4, "lead")
		li := r.Choose(len(letters), "letter")
		ti := r.Choose(len(tails), "tail")
		if r.Scout() {
			return
		}
		n := counts[r.Choose(len(counts), "count")]
		s := strings.Repeat("x", lead) + strings.Repeat(letters[li], n) + tails[ti]
		r.Note = map[string]interface{}{"id": fmt.Sprintf("lead %d, %d x %q, tail %q", lead, n, letters[li], tails[ti]), "msg": c17Check(s)}
	}
	e := c.Explorer(0)
	e.SplitDepth = 3
	c.Run(e, body, func(r *vx.Run) {
		c.R.Nontrivial++
		if m := r.Note["msg"].(string); m != "" {
			id := r.Note["id"].(string)
			c.Violate("c17_longwords:"+strings.ReplaceAll(id, " ", "_"), id+": "+m, r, m)
		}
	})
}

// c17Runes: every code point U+0000..U+2FFF, plane ends, every byte 0x80..0xFF alone and malformed
// sequences, alone / at the start / inside / at the end of a word; the same oracle.
func c17Runes(c *vrep.Ctx) {
	var units []string
	for r := rune(0); r < 0x3000; r++ {
		units = append(units, string(r))
	}
	for _, r := range []rune{0xFFFC, 0xFFFD, 0xFFFE, 0xFFFF, 0x10000, 0x1F600, 0xE000, 0xF8FF, 0x10FFFE, 0x10FFFF} {
		units = append(units, string(r))
	}
	for b := 0x80; b <= 0xFF; b++ {
		units = append(units, string([]byte{byte(b)}))
	}
	units = append(units, "\xed\xa0\x80", "\xed\xbf\xbf", "\xf4\x90\x80\x80", "\xc0\x80")
	places := [][2]string{{"aa ", " bb"}, {"aa ", "bc bb"}, {"aa b", "c bb"}, {"aa bc", " bb"}, {"", ""}, {"aa,", ",bb"}}
	c.R.Rule = fmt.Sprintf("%d characters (every code point U+0000..U+2FFF, plane ends, private use, single bytes 0x80..0xFF, malformed sequences) x %d places (alone, start / middle / end of a word, whole input, between punctuation); oracle as c17_tokens; non-trivial = all cases", len(units), len(places))
	body := func(r *vx.Run) {
		u := units[r.Choose(len(units), "character")]
		pl := places[r.Choose(len(places), "place")]
		s := pl[0] + u + pl[1]
		r.Note = map[string]interface{}{"id": fmt.Sprintf("%+q in %q", u, pl[0]+"_"+pl[1]), "msg": c17Check(s)}
	}
	e := c.Explorer(0)
	e.SplitDepth = 1
	c.Run(e, body, func(r *vx.Run) {
		c.R.Nontrivial++
		if m := r.Note["msg"].(string); m != "" {
			id := r.Note["id"].(string)
			c.Violate("c17_runes:"+strings.ReplaceAll(id, " ", "_"), id+": "+m, r, m)
		}
	})
}

// c17LongText: running text with punctuation throughout, of sizes a little above the powers of two
// from 1 KiB to 128 KiB (whatever a tokenizer may do differently for long inputs: pieces, buffers,
// narrow offsets), shifted by 0..15 leading bytes; the oracle of c17_tokens.
func c17LongText(c *vrep.Ctx) {
	sizes := []int{1100, 2200, 4300, 8300, 16500, 33000, 66000, 132000}
	if c.Thorough() {
		sizes = append(sizes, 263000, 1050000)
	}
	styles := []struct {
		name string
		seps []string
	}{
		{"commas and full stops", []string{" ", ", ", " ", ". ", " ", "; ", "\n"}},
		{"multi-byte punctuation", []string{" ", "—", " ", "。", " «", "» ", "\n\n"}},
		{"glued punctuation", []string{",", " ", "(", ") ", ":", " ", "\t"}},
	}
	c.R.Rule = fmt.Sprintf("running text (distinct words of 2..9 letters, some non-ASCII) with punctuation between the words in %d styles, total size %v bytes, behind 0..15 leading filler bytes; oracle as c17_tokens (every non-space character covered once, offsets increasing, text at the offset equals the token); non-trivial = all cases", len(styles), sizes)
	c.Bound("max_bytes", sizes[len(sizes)-1])
	body := func(r *vx.Run) {
		n := sizes[r.Choose(len(sizes), "size")]
		st := styles[r.Choose(len(styles), "style")]
		shift := r.Choose(16, "shift")
		if r.Scout() {
			return
		}
		var sb strings.Builder
		sb.WriteString(strings.Repeat("x", shift))
		if shift > 0 {
			sb.WriteByte(' ')
		}
		for i := 0; sb.Len() < n; i++ {
			w := "w" + string(rune('a'+i%26)) + strings.Repeat(string(rune('a'+(i/26)%26)), i%8)
			if i%17 == 3 {
				w += "é世"
			}
			sb.WriteString(w)
			sb.WriteString(st.seps[i%len(st.seps)])
		}
		r.Note = map[string]interface{}{"id": fmt.Sprintf("%d bytes, %s, shift %d", n, st.name, shift), "msg": c17Check(sb.String())}
	}
	e := c.Explorer(0)
	e.SplitDepth = 2
	c.Run(e, body, func(r *vx.Run) {
		c.R.Nontrivial++
		if m := r.Note["msg"].(string); m != "" {
			id := r.Note["id"].(string)
			c.Violate("c17_longtext:"+strings.ReplaceAll(id, " ", "_"), id+": "+m, r, m)
		}
	})
}
