//go:build verif && go1.21

package stringclassifier

import (
	"fmt"
	"sort"
	"strings"
	"sync"
	"unicode"

	"github.com/google/licenseclassifier/stringclassifier/searchset"
	"verifh/vrep"
	"verifh/vsync"
	"verifh/vx"
)

// C14: v1 classifiers are safe for concurrent use.

func init() {
	vRegistry["c14_sched"] = c14Sched
	vRegistry["c14_race"] = c14Race
}

func fmtMatches(ms Matches) string {
	var out []string
	for _, m := range ms {
		out = append(out, fmt.Sprintf("%s conf=%v off=%d ext=%d", m.Name, m.Confidence, m.Offset, m.Extent))
	}
	return strings.Join(out, "; ")
}

func fmtMatch(m *Match) string {
	if m == nil {
		return "nil"
	}
	return fmt.Sprintf("%s conf=%v off=%d ext=%d", m.Name, m.Confidence, m.Offset, m.Extent)
}

type c14Op struct {
	kind string // MM, NM, ADD
	arg  string
	key  string
}

var c14Scenarios = [][]c14Op{
	{{"MM", "x the quick brown fox y", ""}, {"MM", "lazy dog jumps the quick brown fox", ""}},
	{{"MM", "x the quick brown fox y", ""}, {"NM", "the quick brown fix", ""}},
	{{"MM", "x the quick brown fox y lazy dog jumps", ""}, {"ADD", "over the moon", "K3"}},
	{{"NM", "lazy dog jumped", ""}, {"ADD", "lazy dog jumped", "K3"}},
	{{"MM", "the quick brown fox", ""}, {"MM", "the quick brown fox", ""}},
	{{"MM", "x the quick brown fox y", ""}, {"MM", "lazy dog jumps", ""}, {"ADD", "over the moon", "K3"}},
	{{"NM", "the quick brown fox", ""}, {"NM", "lazy dog jumps", ""}, {"MM", "lazy dog jumps the quick brown fox", ""}},
	{{"ADD", "over the moon", "K3"}, {"ADD", "under the sea", "K3"}},
	{{"ADD", "over the moon", "K3"}, {"ADD", "under the sea", "K3"}, {"MM", "x over the moon y under the sea", ""}},
	{{"ADD", "over the moon", "K3"}, {"ADD", "under the sea", "K4"}, {"NM", "under the sea", ""}},
	// two inexact NearestMatch calls with DIFFERENT candidate sets (the length filter keeps only K1
	// for the first, K1 and K2 for the second)
	{{"NM", "the quick brown fix", ""}, {"NM", "lazy dog jumped", ""}},
	{{"NM", "the quick brown fix", ""}, {"NM", "lazy dog jumped", ""}, {"MM", "x lazy dog jumps y", ""}},
	// scenario 12 (with the job parameter values=N): two MultipleMatch calls on a text that contains
	// ALL N extra known values - the library fans out one goroutine per value and more per candidate
	{{"MM", "@ALL", ""}, {"MM", "@ALL", ""}},
	// scenario 13: two MultipleMatch calls on DIFFERENT texts of more than 4 KB each (sizes above
	// whatever the library may treat specially); with c14Reprobe every query is repeated after the join
	{{"MM", "@BIGA", ""}, {"MM", "@BIGB", ""}},
	{{"MM", "@BIGA", ""}, {"NM", "@BIGB", ""}, {"MM", "@BIGB", ""}},
	// scenario 15/16: values that are not valid UTF-8 (every other value in the scenarios is plain
	// ASCII: paths that only such bytes reach), added concurrently; a longer one was added first
	{{"ADD", "over \xff the moon", "K3"}, {"ADD", "under the \xfe sea \xc3", "K4"}},
	{{"ADD", "over \xff the moon", "K3"}, {"ADD", "under the \xfe sea \xc3", "K4"}, {"MM", "x over \xff the moon y", ""}},
	// scenario 17/18 (with values=1;valuebytes=N): a query that IS the big registered value, next to a
	// small MultipleMatch that has to build the big value's search set first
	{{"NM", "@E0", ""}, {"MM", "x the quick brown fox y", ""}},
	{{"MM", "@E0", ""}, {"NM", "@E0", ""}},
	// scenario 19/20: a value of 4.6 KB is ADDED while a query runs
	{{"MM", "x the quick brown fox y", ""}, {"ADD", "@BIGA", "K3"}},
	{{"MM", "x the quick brown fox y", ""}, {"ADD", "@BIGA", "K3"}, {"NM", "lazy dog jumped", ""}},
	// scenario 21/22 (with values=1;valuebytes=N): inexact NearestMatch calls on a text that is the
	// big registered value with its last word changed (text and value together above a quarter of a
	// megabyte: the diff of two long texts), twice, or next to an inexact query on short texts
	{{"NM", "@E0X", ""}, {"NM", "@E0X", ""}},
	{{"NM", "@E0X", ""}, {"NM", "the quick brown fix", ""}, {"NM", "lazy dog jumped", ""}},
	// scenario 23 (values=1;valuebytes=4600;reprobe=yes): two MultipleMatch calls that both need the
	// search set of a registered value of 4.6 KB, while a further value is added; every query is asked
	// again after the join (bookkeeping of what is still to be built)
	{{"MM", "@E0", ""}, {"MM", "@E0", ""}, {"ADD", "over the moon", "K3"}},
	// scenario 24 (v1deep profile: searchset and tokenizer are monitored too): texts with punctuation
	// outside ASCII
	{{"MM", "x \u00ab the quick brown fox \u00bb y \u2026", ""}, {"MM", "\u00bf lazy dog jumps \u2026 \u00ab", ""}},
}

// c14InvalidFirst (scenarios 15/16): an invalid-UTF-8 value is registered while the classifier is built.
var c14InvalidFirst bool

// c14Reprobe (job parameter reprobe=yes, always for the big-text scenarios): after the concurrent
// calls have returned, every query is run once more on the same classifier and is part of the
// joint outcome (what a poisoned cache would answer from then on).
var c14Reprobe bool

func c14BigText(which string) string {
	var sb strings.Builder
	if which == "@BIGA" {
		sb.WriteString("intro the quick brown fax and ")
	} else {
		sb.WriteString("lazy dog jumped over ")
	}
	for k := 0; sb.Len() < 4600; k++ {
		fmt.Fprintf(&sb, "f%c%c%c%s ", 'a'+k%26, 'a'+(k/26)%26, 'a'+(k/676)%26, which[4:])
	}
	if which == "@BIGA" {
		sb.WriteString("lazy dog jumps")
	} else {
		sb.WriteString("the quick brown fox")
	}
	return sb.String()
}

// c14Extra: number of additional known values "va<i> vb<i> vc<i>" (job parameter values=N).
var c14Extra int

// c14ValueBytes > 0 (job parameter valuebytes=N): every extra value is padded with its own filler
// words to N bytes (total size of the registered texts beyond any cache or budget inside the library).
var c14ValueBytes int

func c14ExtraValue(i int) string {
	s := fmt.Sprintf("%c%c", 'a'+i%26, 'a'+i/26)
	v := "va" + s + " vb" + s + " vc" + s
	if c14ValueBytes == 0 {
		return v
	}
	if t, ok := c14ValueCache[i]; ok && len(t) >= c14ValueBytes {
		return t
	}
	var sb strings.Builder
	sb.WriteString(v)
	for k := 0; sb.Len() < c14ValueBytes; k++ {
		fmt.Fprintf(&sb, " w%s%c%c%c", s, 'a'+k%26, 'a'+(k/26)%26, 'a'+(k/676)%26)
	}
	c14ValueCache[i] = sb.String()
	return c14ValueCache[i]
}

var c14ValueCache = map[int]string{}

func c14AllText() string {
	var parts []string
	for i := 0; i < c14Extra; i++ {
		parts = append(parts, c14ExtraValue(i))
	}
	return "x " + strings.Join(parts, " y ") + " z"
}

// c14Probe observes the final state after all calls returned: which of the values that were
// ever offered are now known, and under which key.
func c14Probe(cl *Classifier, ops []c14Op) string {
	var out []string
	for _, o := range ops {
		if o.kind == "ADD" {
			out = append(out, "probe("+o.arg+")="+fmtMatch(cl.NearestMatch(o.arg)))
		}
	}
	if c14Reprobe {
		for _, o := range ops {
			if o.kind != "ADD" {
				out = append(out, "again:"+o.run(cl))
			}
		}
	}
	return strings.Join(out, ",")
}

func c14Build(precomputed bool) *Classifier {
	cl := New(0.5, FlattenWhitespace)
	vals := [][2]string{{"K1", "the quick brown fox"}, {"K2", "lazy dog jumps"}}
	for i := 0; i < c14Extra; i++ {
		vals = append(vals, [2]string{fmt.Sprintf("E%03d", i), c14ExtraValue(i)})
	}
	if c14InvalidFirst {
		vals = append(vals, [2]string{"K0", "a rather long earlier value with \xff\xfe bytes that are not valid in it at all \xc3"})
	}
	for _, kv := range vals {
		if precomputed {
			cl.AddPrecomputedValue(kv[0], kv[1], searchset.New(kv[1], searchset.DefaultGranularity))
		} else {
			cl.AddValue(kv[0], kv[1])
		}
	}
	return cl
}

func (o c14Op) run(cl *Classifier) string {
	if o.arg == "@ALL" {
		o.arg = c14AllText()
	}
	if o.arg == "@E0" {
		o.arg = c14ExtraValue(0)
	}
	if o.arg == "@E0X" {
		v := c14ExtraValue(0)
		o.arg = v[:strings.LastIndexByte(v, ' ')+1] + "zqlast"
	}
	if strings.HasPrefix(o.arg, "@BIG") {
		o.arg = c14BigText(o.arg)
	}
	switch o.kind {
	case "MM":
		return "MM:" + fmtMatches(cl.MultipleMatch(o.arg))
	case "NM":
		return "NM:" + fmtMatch(cl.NearestMatch(o.arg))
	default:
		return fmt.Sprintf("ADD:%v", cl.AddValue(o.key, o.arg))
	}
}

// c14Allowed: the joint outcomes (every call's result plus the final-state probe) of all
// sequential orders of the calls.
func c14Allowed(ops []c14Op, precomputed bool) map[string]bool {
	n := len(ops)
	allowed := map[string]bool{}
	perm := make([]int, n)
	for i := range perm {
		perm[i] = i
	}
	var rec func(k int)
	rec = func(k int) {
		if k == n {
			var res []string
			underSched(func() {
				cl := c14Build(precomputed)
				res = make([]string, n)
				for _, i := range perm {
					res[i] = ops[i].run(cl)
				}
				res = append(res, c14Probe(cl, ops))
			})
			allowed[strings.Join(res, " || ")] = true
			return
		}
		for j := k; j < n; j++ {
			perm[k], perm[j] = perm[j], perm[k]
			rec(k + 1)
			perm[k], perm[j] = perm[j], perm[k]
		}
	}
	rec(0)
	return allowed
}

func c14Sched(c *vrep.Ctx) {
	if !instrumented() {
		panic("c14_sched needs the v1 instrumentation profile")
	}
	sc := c.ParamInt("scenario", 0)
	c14Extra = c.ParamInt("values", 0)
	c14ValueBytes = c.ParamInt("valuebytes", 0)
	ops := c14Scenarios[sc%len(c14Scenarios)]
	c14Reprobe = c.Param("reprobe", "no") == "yes" || (sc%len(c14Scenarios) >= 13 && sc%len(c14Scenarios) <= 14)
	c14InvalidFirst = sc%len(c14Scenarios) >= 15
	precomputed := c.Param("precomputed", "no") == "yes"
	budget := c.ParamInt("budget", c.Pick(3, 5))
	pol := vsync.Delay
	if c.Param("policy", "delay") == "preemption" {
		pol = vsync.Preemption
	}
	accessYields := c.Param("accessyields", "no") == "yes"
	// the sequential reference outcomes are computed AFTER the first controlled execution of this
	// process: whatever the library remembers process-wide (a lazily filled table) is then first
	// written by overlapping calls under the monitor, not by the reference runs
	var allowed map[string]bool
	var desc []string
	for _, o := range ops {
		desc = append(desc, fmt.Sprintf("%s(%q)", o.kind, o.arg))
	}
	c.R.Rule = "controlled scheduler on the instrumented stringclassifier (sync -> vsync shims, go -> modelled threads, access events on knownValue.set / Classifier.values / matcher.queue): 2-3 concurrent calls (scenario in bounds_completed) on one classifier; every interleaving of the callers AND of the goroutines the library spawns within the stated delay/preemption bound; oracle: no happens-before data race on the watched locations (vector clocks), no deadlock, no panic, and the joint outcome (every call's result + a final-state probe) equals the outcome of some sequential order of the calls; states = explored schedules, transitions = scheduling decisions; non-trivial = schedules in which at least two threads were enabled at the same time"
	c.Bound("scenario", fmt.Sprintf("%v (values added %s)", desc, map[bool]string{false: "by AddValue, search sets built lazily", true: "by AddPrecomputedValue"}[precomputed]))
	c.Assume("regexp, go-diff and the runtime are atomic steps for the scheduler; RWMutex writer preference is not modelled (explored behaviours are a superset); locations other than the three watched ones are covered by the free-running -race pass only")
	c.Bound(c.Param("policy", "delay")+"_bound", budget)
	c.Bound("caller_threads", len(ops))
	maxThreads := 0
	body := func(r *vx.Run) {
		s := vsync.New(r, pol)
		s.PostYield = c.Param("postyield", "no") == "yes"
		s.AccessYields = accessYields
		got := make([]string, len(ops)+1)
		s.Main(func() {
			cl := c14Build(precomputed)
			var wg vsync.WaitGroup
			wg.Add(len(ops))
			for i := range ops {
				i := i
				vsync.Go(fmt.Sprintf("caller%d", i), func() {
					got[i] = ops[i].run(cl)
					wg.Done()
				})
			}
			wg.Wait()
			got[len(ops)] = c14Probe(cl, ops)
		})
		msg := ""
		switch {
		case s.Panic != "":
			msg = "panic: " + s.Panic
		case s.Deadlock != "":
			msg = s.Deadlock
		case len(s.Races) > 0:
			msg = s.Races[0].String()
		case s.HorizonHit:
			r.Note = map[string]interface{}{"horizon": true}
			return
		default:
			if allowed == nil {
				allowed = c14Allowed(ops, precomputed)
			}
			if !allowed[strings.Join(got, " || ")] {
				var al []string
				for a := range allowed {
					al = append(al, a)
				}
				sort.Strings(al)
				msg = fmt.Sprintf("the calls returned jointly %q, which no sequential order of the calls produces (sequential outcomes: %q)", strings.Join(got, " || "), al)
			}
		}
		r.Note = map[string]interface{}{"msg": msg, "steps": s.Steps, "switches": s.Switches, "enabled": s.MaxEnabled, "got": strings.Join(got, " || "), "obs": fmt.Sprintf("%s|%d|%d|%s", strings.Join(got, " || "), s.Steps, s.Switches, msg)}
	}
	c.Run(vSplitExplorer(c, budget, c.ParamInt("split", 8)), body, func(r *vx.Run) {
		if r.Note["horizon"] != nil {
			c.R.Exhaustive = false
			return
		}
		c.R.Transitions += int64(r.Note["steps"].(int))
		if r.Note["enabled"].(int) > maxThreads {
			maxThreads = r.Note["enabled"].(int)
		}
		if r.Note["enabled"].(int) >= 2 {
			c.R.Nontrivial++
		}
		c.Outcome(r.Note["got"].(string))
		if c.R.Evaluations%500 == 1 {
			c.Sample(map[string]interface{}{"schedule_choices": fmt.Sprint(r.Choices), "context_switches": r.Note["switches"], "scheduling_points": r.Note["steps"]})
		}
		if m := r.Note["msg"].(string); m != "" {
			k := m
			if i := strings.Index(k, " returned jointly"); i > 0 {
				k = "non-linearizable outcome"
			}
			c.Violate("c14_sched:"+strings.ReplaceAll(k, " ", "_"), fmt.Sprintf("scenario %v schedule %v: %s", desc, r.Choices, m), r, m)
		}
	})
	c.R.States = c.R.Evaluations
	c.Bound("max_simultaneously_enabled_threads", maxThreads)
}

// c14Race: free-running companion with the Go race detector.
// c14Punct: every punctuation character between U+00A1 and U+FF65.
var c14Punct = func() []string {
	var out []string
	for r := rune(0xa1); r < 0xff66; r++ {
		if unicode.IsPunct(r) {
			out = append(out, string(r))
		}
	}
	return out
}()

func c14Race(c *vrep.Ctx) {
	n := c.Pick(32, 64)
	rounds := c.Pick(20, 60)
	c14Extra = c.ParamInt("values", 0)
	c14ValueBytes = c.ParamInt("valuebytes", 0)
	if c14Extra > 0 {
		// load variant: many known values that all occur in one text, many callers at once (a worker
		// that never returns is killed by vcheck and reported as a hang)
		n, rounds = 96, c.Pick(3, 8)
	}
	all := c14AllText()
	c.R.Rule = fmt.Sprintf("free-running companion (sampling over schedules): %d real goroutines x %d rounds calling MultipleMatch (also on texts with non-ASCII punctuation not seen before in the process) / NearestMatch / AddValue on one shared classifier (lazy search sets; %d extra known values that all occur in one of the texts), -race build; results of the read-only calls compared with sequential results where no AddValue interferes; race detector reports, runtime deadlock reports and hangs are violations", n, rounds, c14Extra)
	for round := 0; round < rounds; round++ {
		cl := c14Build(round%2 == 1)
		var wg sync.WaitGroup
		for g := 0; g < n; g++ {
			wg.Add(1)
			go func(g int) {
				defer wg.Done()
				if c14Extra > 0 && g%4 != 3 {
					cl.MultipleMatch(all)
					return
				}
				if c14Extra == 0 && g%8 >= 4 {
					// texts with punctuation outside ASCII that this process has not seen before (whatever
					// the library remembers per character is first written here, by calls that overlap)
					p := c14Punct[(round*n+g)%len(c14Punct)]
					q := c14Punct[(round*n+g+len(c14Punct)/2)%len(c14Punct)]
					cl.MultipleMatch("x " + p + "the quick brown fox" + q + " y lazy dog jumps " + p)
					return
				}
				switch g % 4 {
				case 0:
					cl.MultipleMatch("x the quick brown fox y lazy dog jumps")
				case 1:
					cl.NearestMatch("the quick brown fix")
				case 2:
					cl.MultipleMatch("lazy dog jumps")
				case 3:
					cl.AddValue(fmt.Sprintf("N%d", g), fmt.Sprintf("value number %d of the test", g))
				}
			}(g)
		}
		wg.Wait()
		c.R.Evaluations += int64(n)
	}
	c.R.Nontrivial = int64(n)
	c.Sample(map[string]interface{}{"goroutines": n, "rounds": rounds})
	c.R.Exhaustive = false
}
