package stringclassifier

import (
	"fmt"
	"strings"

	"verifh/vrep"
	"verifh/vx"
)

func init() { vRegistry["c13_twice"] = c13Twice }

// c13Twice: the SAME known value occurs twice in the unknown text, and the two
// copies sit differently in it: on token boundaries, glued to a letter in
// front, glued to a letter behind, next to each other. Both copies are verbatim
// occurrences, so both must be reported exactly.
func c13Twice(c *vrep.Ctx) {
	if !instrumented() {
		panic("c13 needs the v1 instrumentation profile (library goroutines must be modelled threads)")
	}
	maxTok := c.Pick(3, 4)
	values := c13Values([]string{"a", "b", "c", ","}, maxTok)
	ctxs := append([]c13Value{{nil}}, c13Values([]string{"x", "y", "."}, 1)...)
	mids := []string{"zq", "x y zq x", ""}
	// how each copy is attached: "" aligned, "<" a letter glued in front, ">" a letter glued behind
	attach := []string{"", "<", ">"}
	norms := []struct {
		name string
		fn   []NormalizeFunc
		sep  string
	}{{"none", nil, " "}, {"FlattenWhitespace", []NormalizeFunc{FlattenWhitespace}, " \n  "}}
	ts := []float64{0.5, 0.8, 1}
	c.R.Rule = fmt.Sprintf("ALL known values of 1..%d tokens over {a,b,c,','} (plus an unrelated second value) x ALL unknowns pre + copy1 + mid + copy2 + post with pre/post of 0..1 tokens over {x,y,.}, mid in {one unrelated token, four tokens, nothing (adjacent copies)}, each copy attached in {aligned, letter glued in front, letter glued behind} x normaliser lists {none, FlattenWhitespace} x thresholds %v, restricted to unknowns in which the value occurs at exactly two, non-overlapping places; MultipleMatch must report BOTH copies of the value with Confidence 1.0 and exactly their Offset/Extent; all confidences in (0,1] and ranges inside the normalised unknown; non-trivial = distinct (value, unknown, normaliser, threshold) cases", maxTok, ts)
	c.Bound("max_value_tokens", maxTok)
	body := func(r *vx.Run) {
		k := values[r.Choose(len(values), "value")]
		a1 := attach[r.Choose(len(attach), "copy 1")]
		a2 := attach[r.Choose(len(attach), "copy 2")]
		mid := mids[r.Choose(len(mids), "between")]
		pre := ctxs[r.Choose(len(ctxs), "pre")]
		post := ctxs[r.Choose(len(ctxs), "post")]
		nm := norms[r.Choose(len(norms), "normalizers")]
		th := ts[r.Choose(len(ts), "threshold")]
		if r.Scout() {
			return
		}
		copyOf := func(a string) string {
			v := strings.Join(k.toks, nm.sep)
			switch a {
			case "<":
				return "q" + v
			case ">":
				return v + "q"
			}
			return v
		}
		var parts []string
		for _, p := range []string{strings.Join(pre.toks, nm.sep), copyOf(a1), strings.Join(strings.Fields(mid), nm.sep), copyOf(a2), strings.Join(post.toks, nm.sep)} {
			if p != "" {
				parts = append(parts, p)
			}
		}
		unknown := strings.Join(parts, nm.sep)
		cl := New(th, nm.fn...)
		val := strings.Join(k.toks, nm.sep)
		cl.AddValue("K1", val)
		cl.AddValue("other", "completely unrelated words here")
		normU, normK := cl.normalize(unknown), cl.normalize(val)
		var at []int
		for i := 0; i+len(normK) <= len(normU); i++ {
			if strings.HasPrefix(normU[i:], normK) {
				at = append(at, i)
			}
		}
		if len(at) != 2 || at[0]+len(normK) > at[1] {
			r.Note = map[string]interface{}{"skip": true}
			return
		}
		id := fmt.Sprintf("value %q twice in unknown %q norm=%s T=%v", val, unknown, nm.name, th)
		var ms Matches
		p, d := underSched(func() { ms = cl.MultipleMatch(unknown) })
		msg := ""
		switch {
		case p != "":
			msg = "panic: " + p
		case d != "":
			msg = d
		default:
			for _, o := range at {
				found := false
				for _, m := range ms {
					if m.Name == "K1" && m.Confidence == 1.0 && m.Offset == o && m.Extent == len(normK) {
						found = true
					}
				}
				if !found && msg == "" {
					var got []string
					for _, m := range ms {
						got = append(got, fmt.Sprintf("%s conf=%v off=%d ext=%d", m.Name, m.Confidence, m.Offset, m.Extent))
					}
					msg = fmt.Sprintf("MultipleMatch did not report the copy at Offset %d Extent %d with Confidence 1.0 (copies at %v); got %v", o, len(normK), at, got)
				}
			}
			if msg == "" {
				msg = checkMatches(ms, normU, th)
			}
		}
		r.Note = map[string]interface{}{"id": id, "msg": msg}
	}
	c.Run(vSplitExplorer(c, 0, 2), body, func(r *vx.Run) {
		if r.Note["skip"] != nil {
			c.R.Evaluations--
			return
		}
		id := r.Note["id"].(string)
		c.R.Nontrivial++
		if c.R.Nontrivial%2000 == 1 {
			c.Sample(id)
		}
		if m := r.Note["msg"].(string); m != "" {
			c.Violate("c13_twice:"+strings.ReplaceAll(id, " ", "_"), id+": "+m, r, m)
		} else {
			c.Outcome("both found")
		}
	})
}

func init() { vRegistry["c13_longglue"] = c13LongGlue }

// c13LongGlue: long known values made of words with letters of two and three bytes, behind
// 0..5 ASCII bytes so that such a letter straddles every byte offset class (in particular the
// powers of two 256, 512, 1024, 4096), occurring once in the unknown text: aligned, glued to a
// letter in front, behind, or both. The copy must be reported exactly.
func c13LongGlue(c *vrep.Ctx) {
	if !instrumented() {
		panic("c13 needs the v1 instrumentation profile (library goroutines must be modelled threads)")
	}
	sizes := []int{200, 300, 560, 1100, 4200}
	glue := []struct{ name, pre, post string }{{"aligned", " ", " "}, {"glued in front", "q", " "}, {"glued behind", " ", "q"}, {"glued on both sides", "q", "q"}, {"at the very start and end", "", ""}}
	ts := []float64{0.5, 0.8, 1}
	c.R.Rule = fmt.Sprintf("known values of about %v bytes made of words with 2- and 3-byte letters behind 0..5 ASCII bytes (a multi-byte letter straddles every offset class) x one copy in the unknown text %d ways (aligned / glued) x thresholds %v: MultipleMatch reports the copy with Confidence 1.0 and its exact Offset/Extent, NearestMatch(value) = (value, 1.0); non-trivial = all cases", sizes, len(glue), ts)
	body := func(r *vx.Run) {
		n := sizes[r.Choose(len(sizes), "size")]
		pad := r.Choose(6, "pad")
		g := glue[r.Choose(len(glue), "glue")]
		th := ts[r.Choose(len(ts), "threshold")]
		if r.Scout() {
			return
		}
		var sb strings.Builder
		sb.WriteString(strings.Repeat("x", pad))
		for i := 0; sb.Len() < n; i++ {
			if sb.Len() > 0 {
				sb.WriteByte(' ')
			}
			sb.WriteString([]string{"é世é", "世界", "éé", "lé世"}[i%4] + string(rune('a'+i%26)))
		}
		val := sb.String()
		cl := New(th)
		cl.AddValue("K1", val)
		cl.AddValue("other", "completely unrelated words here")
		unknown := "lead words" + g.pre + val + g.post + "tail words"
		if g.pre == "" {
			unknown = val
		}
		at := strings.Index(unknown, val)
		id := fmt.Sprintf("value of %d bytes (pad %d), %s, T=%v", len(val), pad, g.name, th)
		var ms Matches
		var near *Match
		p, d := underSched(func() {
			ms = cl.MultipleMatch(unknown)
			near = cl.NearestMatch(val)
		})
		msg := ""
		switch {
		case p != "":
			msg = "panic: " + p
		case d != "":
			msg = d
		default:
			found := false
			for _, m := range ms {
				if m.Name == "K1" && m.Confidence == 1.0 && m.Offset == at && m.Extent == len(val) {
					found = true
				}
			}
			if !found {
				var got []string
				for _, m := range ms {
					got = append(got, fmt.Sprintf("%s conf=%v off=%d ext=%d", m.Name, m.Confidence, m.Offset, m.Extent))
				}
				msg = fmt.Sprintf("MultipleMatch did not report the copy at Offset %d Extent %d with Confidence 1.0; got %v", at, len(val), got)
			} else if near == nil || near.Name != "K1" || near.Confidence != 1.0 {
				msg = fmt.Sprintf("NearestMatch(value) = %+v, want K1 with Confidence 1.0", near)
			} else {
				msg = checkMatches(ms, unknown, th)
			}
		}
		r.Note = map[string]interface{}{"id": id, "msg": msg}
	}
	c.Run(vSplitExplorer(c, 0, 2), body, func(r *vx.Run) {
		id := r.Note["id"].(string)
		c.R.Nontrivial++
		if c.R.Nontrivial%50 == 1 {
			c.Sample(id)
		}
		if m := r.Note["msg"].(string); m != "" {
			c.Violate("c13_longglue:"+strings.ReplaceAll(id, " ", "_"), id+": "+m, r, m)
		} else {
			c.Outcome("found")
		}
	})
}
