//go:build verif && go1.21

package classifier

import (
	"fmt"
	"os"
	"path/filepath"
	"sort"
	"strings"

	"verifh/vrep"
	"verifh/vx"
)

// C12: LoadLicenses(dir) is equivalent to AddContent per file.

func init() {
	vRegister("c12_trees", c12Trees)
	vRegister("c12_assets", c12Assets)
}

type c12File struct {
	depth int
	name  string
	body  string
	path  string // if set: the path below the directory (category/name/variant), instead of the usual components
}

var c12Names = []struct{ name, body string }{
	{"a.txt", "aa bb cc aa bb"},
	{"b.txt", "cc bb aa cc bb aa"},
	{"x.md", "dd ee ff dd ee"},
	{"txt", "gg hh ii gg hh"},
	{"y.ptxt", "jj kk ll jj kk"},
	{"e.txt", ""},
	{"0.txt", "mm nn oo mm nn"}, // sorts before every directory component: visited first by the walk
	{"dir.txt", "\x00DIR"},      // a DIRECTORY whose name ends in txt (body marker: created with Mkdir)
	// bytes that a loader must hand over untouched: CRLF line ends behind a hyphen, a lone CR, a BOM,
	// a NUL, trailing blanks (AddContent on the same bytes is the reference)
	{"raw.txt", "\ufeffpp qq-\r\nrr ss\rtt uu\x00vv ww  \r\n\r\nxx yy zz\n"},
}

// large files (only offered at variant depth): bigger than any shipped corpus file (62 KB) and than
// the usual power-of-two buffer sizes
var c12Big = []struct{ name, body string }{
	{"big64k.txt", c12BigBody(66000)},
	{"big128k.txt", c12BigBody(135000)},
	// beyond a megabyte (read limits); combined with one spelling and one directory only
	{"big1m.txt", c12BigBody(1<<20 + 5000)},
}

const c12LinkShort = "aa cc bb aa cc bb aa cc bb aa cc bb aa cc bb aa cc bb aa cc bb aa cc bb aa cc bb aa cc bb aa cc bb aa cc bb aa cc bb aa cc bb aa cc bb zqa"

func c12BigBody(n int) string {
	var sb strings.Builder
	for i := 0; sb.Len() < n; i++ {
		sb.WriteString(vFillerWord(i % 9000))
		if i%13 == 12 {
			sb.WriteByte('\n')
		} else {
			sb.WriteByte(' ')
		}
	}
	return sb.String()
}

var c12Comps = []string{"License", "Foo", "sub", "deep"}

func (f c12File) rel() string {
	if f.path != "" {
		return f.path
	}
	parts := append([]string(nil), c12Comps[:f.depth-1]...)
	parts = append(parts, f.name)
	return filepath.Join(parts...)
}

type c12Spelling struct {
	name string
	make func(parent, leaf string) string // parent: absolute parent dir (also cwd), leaf: directory name(s) below it
	in   bool                             // cwd is the directory itself, not its parent
}

var c12Spellings = []c12Spelling{
	{"absolute", func(p, l string) string { return filepath.Join(p, l) }, false},
	{"absolute + trailing separator", func(p, l string) string { return filepath.Join(p, l) + "/" }, false},
	{"relative", func(p, l string) string { return l }, false},
	{"./ prefix", func(p, l string) string { return "./" + l }, false},
	{"relative + trailing separator", func(p, l string) string { return l + "/" }, false},
	{"./ prefix + trailing separator", func(p, l string) string { return "./" + l + "/" }, false},
	{"doubled separator", func(p, l string) string { return strings.Replace(filepath.Join(p, l), "/", "//", 2) }, false},
	{"through ..", func(p, l string) string { return l + "/../" + filepath.Base(l) }, false},
	{"dot (cwd is the directory)", func(p, l string) string { return "." }, true},
	{"dot + separator (cwd is the directory)", func(p, l string) string { return "./" }, true},
	{"up and down again (cwd is the directory)", func(p, l string) string { return "../" + filepath.Base(l) }, true},
}

func corpusDump(cl *Classifier) []string {
	var out []string
	for _, k := range vDocKeys(cl) {
		out = append(out, k+" => "+strings.Join(vDocWords(cl, k), " "))
	}
	return out
}

func c12Trees(c *vrep.Ctx) {
	maxFiles := c.Pick(2, 3)
	var options []c12File
	for d := 1; d <= 5; d++ {
		for _, n := range c12Names {
			options = append(options, c12File{depth: d, name: n.name, body: n.body})
		}
		if d == 3 {
			for _, n := range c12Big {
				options = append(options, c12File{depth: d, name: n.name, body: n.body})
			}
			// symbolic links to regular files kept elsewhere (a licenses directory assembled from
			// links): one with a short body, one with a 5 KB body; the link itself is a few bytes
			// names that are not valid UTF-8 (a tree unpacked from an ISO-8859-1 archive): the variant file,
			// the license directory, the category directory
			options = append(options,
				c12File{depth: d, name: "v\xe7.txt", body: "gg hh ii gg hh zqa"},
				c12File{depth: d, name: "n.txt", body: "jj kk ll jj kk zqa", path: "License/Licen\xe7a/n.txt"},
				c12File{depth: d, name: "c.txt", body: "mm nn oo mm nn zqa", path: "Cat\xe9gorie/Foo/c.txt"})
			options = append(options, c12File{depth: d, name: "link.txt", body: "\x00LINK:" + c12LinkShort}, c12File{depth: d, name: "linkbig.txt", body: "\x00LINK:" + c12BigBody(5000)})
		}
	}
	// the third directory name is made of characters that mean something in a file-name pattern
	// (its siblings "cop" and "co1p" exist next to it, with a loadable file of their own)
	leaves := []string{"corp", "nest/ed", "co[1]p*"}
	patFiles := c.Pick(1, 2)
	queries := [][]byte{[]byte("zqa aa bb cc aa bb zqb"), []byte("zqa cc bb aa cc bb aa"), []byte("gg hh ii gg hh\njj kk ll jj kk"), []byte("zqa")}
	c.R.Rule = fmt.Sprintf("all sets of <=%d files drawn from depth 1..5 x names {a.txt, b.txt, x.md, txt, y.ptxt, empty e.txt, 0.txt (sorts before the directories), a directory named dir.txt} plus 66 KB, 135 KB and 1.05 MB files two symbolic links to regular files outside the tree (short and 5 KB targets) and three files whose variant / license / category name is not valid UTF-8 at variant depth (%d options), built in a private temp dir, x %d spellings of the directory (absolute/relative, ./ prefix, trailing separator, doubled separator, through .., and '.', './', '../name' with the directory as cwd) x {single, multi-component, pattern-character} directory name (the last with siblings its name would match as a pattern); LoadLicenses must not panic or fail; files shallower than category/name/variant or not ending in 'txt' are ignored; if every remaining file sits at depth 3 the corpus (keys and word sequences, white-box) and Match on a query menu equal a classifier built by AddContent per file; non-trivial = distinct (tree, spelling) cases with at least one loadable file", maxFiles, len(options), len(c12Spellings))
	c.Bound("max_files", maxFiles)
	c.Bound("spellings", len(c12Spellings))
	tmp, err := os.MkdirTemp("", "verif-c12-")
	if err != nil {
		panic(err)
	}
	defer os.RemoveAll(tmp)
	cwd, _ := os.Getwd()
	defer os.Chdir(cwd)
	n := 0
	body := func(r *vx.Run) {
		k := r.Choose(maxFiles+1, "files")
		var files []c12File
		last := -1
		for i := 0; i < k; i++ {
			// strictly increasing option index: sets, not sequences
			rem := len(options) - (last + 1)
			if rem <= 0 {
				break
			}
			last = last + 1 + r.Choose(rem, "file")
			files = append(files, options[last])
		}
		leaf := leaves[r.Choose(len(leaves), "leaf")]
		sp := c12Spellings[r.Choose(len(c12Spellings), "spelling")]
		if r.Scout() {
			return
		}
		if strings.ContainsAny(leaf, "[*?") && len(files) > patFiles {
			// the pattern-character directory gets the smaller file sets only
			r.Note = map[string]interface{}{"skip": true}
			return
		}
		for _, f := range files {
			// the large files are combined with two spellings only (absolute, '.'): they cost 100x
			if strings.HasPrefix(f.name, "big") && sp.name != "absolute" && sp.name != "dot (cwd is the directory)" {
				r.Note = map[string]interface{}{"skip": true}
				return
			}
			if f.name == "big1m.txt" {
				ok := sp.name == "absolute" && leaf == leaves[0] && len(files) <= 2
				for _, g := range files {
					if g.name != f.name && g.depth != 3 {
						ok = false // its partner, if any, sits at variant depth too
					}
				}
				if !ok {
					r.Note = map[string]interface{}{"skip": true}
					return
				}
			}
		}
		n++
		parent := filepath.Join(tmp, fmt.Sprintf("t%d", n))
		root := filepath.Join(parent, leaf)
		os.MkdirAll(root, 0o755)
		defer os.RemoveAll(parent)
		if strings.ContainsAny(leaf, "[*?") {
			for _, sib := range []string{"co1p", "co[1]p", "co[1]pp", "cop"} {
				if sib != leaf {
					q := filepath.Join(parent, sib, c12Comps[0], c12Comps[1])
					os.MkdirAll(q, 0o755)
					os.WriteFile(filepath.Join(q, "sibling.txt"), []byte("zqa sibling words only"), 0o644)
				}
			}
		}
		var want *Classifier = NewClassifier(0.8)
		comparable := true
		loadable := 0
		var desc []string
		for _, f := range files {
			p := filepath.Join(root, f.rel())
			os.MkdirAll(filepath.Dir(p), 0o755)
			desc = append(desc, f.rel())
			if f.body == "\x00DIR" {
				os.MkdirAll(p, 0o755) // a directory, not a file: never a license
				continue
			}
			if strings.HasPrefix(f.body, "\x00LINK:") {
				f.body = f.body[len("\x00LINK:"):]
				target := filepath.Join(parent, "target-"+f.name)
				os.WriteFile(target, []byte(f.body), 0o644)
				os.Symlink(target, p)
			} else {
				os.WriteFile(p, []byte(f.body), 0o644)
			}
			if !strings.HasSuffix(f.name, "txt") || f.depth < 3 {
				continue // must be ignored
			}
			loadable++
			if f.depth > 3 {
				comparable = false
				continue
			}
			if f.path != "" {
				seg := strings.Split(f.path, "/")
				want.AddContent(seg[0], seg[1], seg[2], []byte(f.body))
			} else {
				want.AddContent(c12Comps[0], c12Comps[1], f.name, []byte(f.body))
			}
		}
		os.Chdir(parent)
		if sp.in {
			os.Chdir(root)
		}
		dir := sp.make(parent, leaf)
		got := NewClassifier(0.8)
		var lerr error
		msg := vPanics(func() { lerr = got.LoadLicenses(dir) })
		if msg != "" {
			msg = "LoadLicenses panicked: " + msg
		} else if lerr != nil {
			msg = "LoadLicenses returned error: " + lerr.Error()
		} else if comparable {
			a, b := corpusDump(want), corpusDump(got)
			if strings.Join(a, "\n") != strings.Join(b, "\n") {
				short := func(v interface{}) string {
					t := fmt.Sprint(v)
					if len(t) > 400 {
						t = fmt.Sprintf("%s ... (%d bytes) ... %s", t[:200], len(t), t[len(t)-150:])
					}
					return t
				}
				msg = fmt.Sprintf("corpus differs: AddContent gives %s, LoadLicenses gives %s", short(a), short(b))
			} else {
				for _, q := range queries {
					if x, y := vFmt(want.Match(q)), vFmt(got.Match(q)); x != y {
						msg = fmt.Sprintf("Match(%q): AddContent-built %s, LoadLicenses-built %s", q, x, y)
					}
				}
			}
		} else {
			// deeper files: only the ignore rules are checked - every loaded document must come from a
			// loadable file,
			// and there cannot be more documents than loadable files
			keys := vDocKeys(got)
			if len(keys) > loadable {
				msg = fmt.Sprintf("%d documents loaded from %d loadable files (a file shallower than category/name/variant or without the txt suffix was loaded): %v", len(keys), loadable, keys)
			}
		}
		sort.Strings(desc)
		r.Note = map[string]interface{}{"id": fmt.Sprintf("{%s} in %q spelled %s", strings.Join(desc, ", "), leaf, sp.name), "msg": msg, "loadable": loadable, "cls": c12Class(files, leaf, sp.name)}
	}
	c.Run(vSplitExplorer(c, 0, 2), body, func(r *vx.Run) {
		if r.Note["skip"] != nil {
			c.R.Evaluations--
			return
		}
		id := r.Note["id"].(string)
		if r.Note["loadable"].(int) > 0 {
			c.Nontrivial(id)
			c.Sample(id)
		}
		if m := r.Note["msg"].(string); m != "" {
			c.Violate("c12_trees:"+strings.ReplaceAll(id, " ", "_"), id+": "+m, r, m)
		} else {
			c.Outcome("equal")
		}
	})
}

func c12Class(files []c12File, leaf, spelling string) string { return "" }

// c12Assets: LoadLicenses on the real assets directory equals AddContent per
// embedded file (what DefaultClassifier does), white-box.
func c12Assets(c *vrep.Ctx) {
	c.R.Rule = "LoadLicenses(/repo/v2/assets) under 4 spellings vs a classifier built by AddContent(category, name, variant, bytes) for every file of the embedded corpus in the order DefaultClassifier walks it: all corpus keys and per-document word sequences must be equal (white-box); non-trivial = corpus documents compared"
	want := corpusDump(vEmbedded(0.8))
	cwd, _ := os.Getwd()
	defer os.Chdir(cwd)
	os.Chdir(filepath.Dir(vAssets))
	for _, dir := range []string{vAssets, vAssets + "/", "assets", "./assets"} {
		got := NewClassifier(0.8)
		var lerr error
		msg := vPanics(func() { lerr = got.LoadLicenses(dir) })
		c.Eval()
		if msg == "" && lerr != nil {
			msg = lerr.Error()
		}
		if msg == "" {
			g := corpusDump(got)
			if len(g) != len(want) {
				msg = fmt.Sprintf("%d documents loaded, %d files in the corpus", len(g), len(want))
			} else {
				for i := range g {
					c.Nontrivial(dir + "|" + strings.SplitN(want[i], " => ", 2)[0])
					if g[i] != want[i] {
						msg = fmt.Sprintf("document %d differs: %.120s vs %.120s", i, g[i], want[i])
						break
					}
				}
			}
		}
		c.Sample(map[string]interface{}{"dir": dir, "documents": len(want)})
		if msg != "" {
			c.Violate("c12_assets:"+dir, fmt.Sprintf("LoadLicenses(%q): %s", dir, msg), nil, msg)
		}
	}
}

// c12History: LoadLicenses and AddContent interleaved on ONE classifier - the same key may already
// be there (added directly, or loaded from an earlier state of the tree). Every sequence of up to N
// operations; the reference classifier gets AddContent for every file of every load, in order.
func init() { vRegister("c12_history", c12History) }

func c12History(c *vrep.Ctx) {
	texts := map[string][]string{
		"Foo": {"aa bb cc aa bb", "cc bb aa cc bb aa dd", "aa bb cc aa bb ee ff"},
		"Bar": {"gg hh ii gg hh", "hh gg ii hh gg jj"},
	}
	type op struct {
		load  bool
		files map[string]int // name -> text version
	}
	ops := []op{
		{false, map[string]int{"Foo": 0}}, {false, map[string]int{"Foo": 1}}, {false, map[string]int{"Bar": 0}},
		{true, map[string]int{"Foo": 0}}, {true, map[string]int{"Foo": 1}}, {true, map[string]int{"Foo": 2, "Bar": 1}}, {true, map[string]int{"Bar": 0}},
	}
	depth := c.Pick(3, 4)
	queries := [][]byte{[]byte("zqa aa bb cc aa bb zqb"), []byte("cc bb aa cc bb aa dd"), []byte("aa bb cc aa bb ee ff"), []byte("gg hh ii gg hh\nhh gg ii hh gg jj")}
	c.R.Rule = fmt.Sprintf("ALL sequences of 1..%d operations from %d on one classifier (AddContent of License/Foo or License/Bar with one of several texts; LoadLicenses of a directory tree holding Foo and/or Bar with one of several texts - the tree is rewritten between loads): corpus (keys and word sequences) and Match on %d queries must equal a classifier that received AddContent for every file of every load, in order; non-trivial = sequences in which a load meets a key that is already there", depth, len(ops), len(queries))
	c.Bound("depth", depth)
	tmp, err := os.MkdirTemp("", "verif-c12h-")
	if err != nil {
		panic(err)
	}
	defer os.RemoveAll(tmp)
	n := 0
	body := func(r *vx.Run) {
		k := 1 + r.Choose(depth, "len")
		seq := make([]int, k)
		for i := range seq {
			seq[i] = r.Choose(len(ops), "op")
		}
		if r.Scout() {
			return
		}
		n++
		root := filepath.Join(tmp, fmt.Sprintf("t%d", n))
		defer os.RemoveAll(root)
		got, want := NewClassifier(0.8), NewClassifier(0.8)
		seen := map[string]bool{}
		meets := false
		var desc []string
		msg := ""
		for _, oi := range seq {
			o := ops[oi]
			var names []string
			for name := range o.files {
				names = append(names, name)
			}
			sort.Strings(names) // the walk visits Bar before Foo
			if o.load {
				os.RemoveAll(root)
				for _, name := range names {
					p := filepath.Join(root, "License", name, "license.txt")
					os.MkdirAll(filepath.Dir(p), 0o755)
					os.WriteFile(p, []byte(texts[name][o.files[name]]), 0o644)
				}
				if e := vPanics(func() {
					if err := got.LoadLicenses(root); err != nil {
						panic("LoadLicenses: " + err.Error())
					}
				}); e != "" {
					msg = e
					break
				}
			}
			for _, name := range names {
				if !o.load {
					got.AddContent("License", name, "license.txt", []byte(texts[name][o.files[name]]))
				} else if seen[name] {
					meets = true
				}
				want.AddContent("License", name, "license.txt", []byte(texts[name][o.files[name]]))
				seen[name] = true
			}
			desc = append(desc, fmt.Sprintf("%s%v", map[bool]string{false: "Add", true: "Load"}[o.load], o.files))
		}
		if msg == "" {
			if a, b := fmt.Sprint(corpusDump(want)), fmt.Sprint(corpusDump(got)); a != b {
				msg = fmt.Sprintf("corpus differs: AddContent only gives %s, the history gives %s", a, b)
			}
		}
		for _, q := range queries {
			if a, b := vFmt(want.Match(q)), vFmt(got.Match(q)); a != b && msg == "" {
				msg = fmt.Sprintf("Match(%q): AddContent only %s, the history %s", q, a, b)
			}
		}
		r.Note = map[string]interface{}{"id": strings.Join(desc, " "), "msg": msg, "nt": meets}
	}
	c.Run(vSplitExplorer(c, 0, 2), body, func(r *vx.Run) {
		if r.Note["nt"].(bool) {
			c.R.Nontrivial++
		}
		if m := r.Note["msg"].(string); m != "" {
			id := r.Note["id"].(string)
			c.Violate("c12_history:"+strings.ReplaceAll(id, " ", "_"), id+": "+m, r, m)
		}
	})
}
