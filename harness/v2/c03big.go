//go:build verif

package classifier

import (
	"fmt"
	"strings"

	"verifh/vrep"
	"verifh/vx"
)

func init() { vRegister("c03_bigdocs", c03BigDocs) }

// c03BigDocs: corpus documents far larger than any shipped one (the largest has 9 560 words):
// N distinct words for N a little above 2^12..2^16, with or without a periodic passage (a short
// phrase repeated many times: q-grams that match at shifted offsets), matched verbatim, in
// context, with a few words changed, and truncated. Every result must satisfy the structural
// invariants of C03 and the bound of C02.
func c03BigDocs(c *vrep.Ctx) {
	sizes := []int{4200, 8300, 17000, 33500}
	if c.Thorough() {
		sizes = append(sizes, 66500)
	}
	passages := []struct {
		name string
		text string
	}{
		{"no periodic passage", ""},
		{"'alpha beta gamma' 60 times at the end", strings.Repeat("alpha beta gamma ", 60)},
		{"'one two' 200 times in the middle", strings.Repeat("one two ", 200)},
	}
	inputs := []string{"verbatim", "in context", "every 997th word changed", "last 50 words cut", "twice"}
	ts := []float64{0.8, 0.5, 1}
	c.R.Rule = fmt.Sprintf("one-document corpora of %v distinct words x %d periodic passages x thresholds %v x inputs %v: every result satisfies threshold <= Confidence <= 1, line and token bounds, ordering, and the Levenshtein bound of C02; non-trivial = cases with a license match", sizes, len(passages), ts, inputs)
	c.Bound("max_document_words", sizes[len(sizes)-1])
	body := func(r *vx.Run) {
		n := sizes[r.Choose(len(sizes), "size")]
		ps := passages[r.Choose(len(passages), "passage")]
		t := ts[r.Choose(len(ts), "threshold")]
		kind := r.Choose(len(inputs), "input")
		if r.Scout() {
			return
		}
		w := make([]string, 0, n+700)
		for i := 0; i < n; i++ {
			if i == n/2 && strings.HasPrefix(ps.text, "one") {
				w = append(w, strings.Fields(ps.text)...)
			}
			w = append(w, "d"+string(rune('a'+i%26))+string(rune('a'+(i/26)%26))+string(rune('a'+(i/676)%26))+string(rune('a'+(i/17576)%26)))
		}
		if strings.HasPrefix(ps.text, "alpha") {
			w = append(w, strings.Fields(ps.text)...)
		}
		lines := func(w []string) string {
			var sb strings.Builder
			for i, x := range w {
				sb.WriteString(x)
				if i%14 == 13 {
					sb.WriteByte('\n')
				} else {
					sb.WriteByte(' ')
				}
			}
			return sb.String()
		}
		doc := lines(w)
		cl := NewClassifier(t)
		cl.AddContent("License", "Big", "license.txt", []byte(doc))
		cl.AddContent("License", "Other", "license.txt", []byte("some other short license text that shares nothing with the big one at all"))
		var in string
		switch kind {
		case 0:
			in = doc
		case 1:
			in = vOOVBlock(1, 4, 3) + doc + "\n" + vOOVBlock(1, 3, 7)
		case 2:
			e := append([]string(nil), w...)
			for i := 500; i < len(e); i += 997 {
				e[i] = "zqchanged"
			}
			in = lines(e)
		case 3:
			in = lines(w[:len(w)-50])
		case 4:
			in = doc + "\n" + vOOVBlock(1, 2, 5) + doc
		}
		var res Results
		msg := vPanics(func() { res = cl.Match([]byte(in)) })
		var msgs []string
		if msg != "" {
			msgs = []string{"panic: " + msg}
		} else {
			toks := vTokenize([]byte(in))
			msgs = append(oracleC03(cl, []byte(in), toks, res), oracleC02(cl, toks, res)...)
		}
		r.Note = map[string]interface{}{"id": fmt.Sprintf("%d words, %s, T=%v, %s", n, ps.name, t, inputs[kind]), "msgs": msgs, "matched": len(res.Matches) > 0}
	}
	c.Run(vSplitExplorer(c, 0, 2), body, func(r *vx.Run) {
		id := r.Note["id"].(string)
		if r.Note["matched"].(bool) {
			c.Nontrivial(id)
		}
		c.Sample(id)
		for _, m := range r.Note["msgs"].([]string) {
			c.Violate("c03_bigdocs:"+strings.ReplaceAll(id, " ", "_"), id+": "+m, r, m)
		}
	})
}
