//go:build verif && go1.21

package classifier

import (
	"bytes"
	"fmt"
	"math"
	"sort"
	"strconv"
	"strings"

	"verifh/vrep"
	"verifh/vx"
)

// C02 (confidence never overstates similarity), C03 (threshold / well-formed)
// and C07 (position independence) share their executions.

func init() {
	for _, p := range []string{"c02", "c03", "c07"} {
		p := p
		vRegister(p+"_small", func(c *vrep.Ctx) { smallScope(c, p) })
		vRegister(p+"_corpus", func(c *vrep.Ctx) { corpusScale(c, p) })
	}
	vRegister("c03_bytes", c03Bytes)
	vRegister("c03_names", c03Names)
}

// oracleC02 checks every non-Copyright match against the Levenshtein bound.
func oracleC02(cl *Classifier, toks []vTok, res Results) []string {
	var out []string
	for _, m := range res.Matches {
		if m.MatchType == "Copyright" {
			continue
		}
		if m.StartTokenIndex < 0 || m.EndTokenIndex >= len(toks) || m.StartTokenIndex > m.EndTokenIndex {
			out = append(out, fmt.Sprintf("span out of range (%d words): %s", len(toks), vFmtMatch(m)))
			continue
		}
		k := vDocWords(cl, vKeyOf(m))
		if k == nil {
			out = append(out, "match names a document that is not in the corpus: "+vFmtMatch(m))
			continue
		}
		r := vWords(toks[m.StartTokenIndex : m.EndTokenIndex+1])
		// implementation distance d: conf = 1 - d/|K|
		d := int(math.Round((1 - m.Confidence) * float64(len(k))))
		if d < 0 {
			d = 0
		}
		l := vLevBanded(r, k, d+1)
		bound := 1.0 - float64(l)/float64(len(k))
		if m.Confidence > bound {
			out = append(out, fmt.Sprintf("Confidence %v > 1-Lev/|K| = 1-%s/%d = %v for %s", m.Confidence, levStr(l, d+1), len(k), bound, vFmtMatch(m)))
		}
		if m.Confidence == 1.0 && strings.Join(r, " ") != strings.Join(k, " ") {
			out = append(out, "Confidence 1.0 but span differs from the document: "+vFmtMatch(m))
		}
		if m.StartLine != toks[m.StartTokenIndex].Line || m.EndLine != toks[m.EndTokenIndex].Line {
			out = append(out, fmt.Sprintf("StartLine/EndLine %d-%d but first/last word of the span are on lines %d/%d: %s", m.StartLine, m.EndLine,
				toks[m.StartTokenIndex].Line, toks[m.EndTokenIndex].Line, vFmtMatch(m)))
		}
	}
	return out
}

// levStr: the banded distance saturates at band+1.
func levStr(l, band int) string {
	if l > band {
		return fmt.Sprintf("(>=%d)", l)
	}
	return strconv.Itoa(l)
}

// oracleC03 checks thresholds, ordering and well-formedness.
func oracleC03(cl *Classifier, in []byte, toks []vTok, res Results) []string {
	var out []string
	// no token can lie on a later line than the last byte that is not white space
	last := len(bytes.TrimRight(in, " \t\r\n\f\v"))
	nl := 1 + strings.Count(string(in[:last]), "\n")
	if res.TotalInputLines < 0 || res.TotalInputLines > nl {
		out = append(out, fmt.Sprintf("TotalInputLines %d outside 0..%d", res.TotalInputLines, nl))
	}
	prev := math.Inf(1)
	for _, m := range res.Matches {
		if m.Confidence > prev {
			out = append(out, "matches not ordered by non-increasing Confidence: "+vFmt(res))
		}
		prev = m.Confidence
		if m.MatchType == "Copyright" {
			if m.Confidence != 1.0 || m.StartLine != m.EndLine || m.StartLine < 1 || m.StartLine > nl || m.Name != "Copyright" {
				out = append(out, "malformed Copyright match: "+vFmtMatch(m))
			}
			continue
		}
		if !(m.Confidence >= cl.threshold && m.Confidence <= 1.0) {
			out = append(out, fmt.Sprintf("Confidence outside [threshold=%v, 1]: %s", cl.threshold, vFmtMatch(m)))
		}
		if _, ok := cl.docs[vKeyOf(m)]; !ok {
			out = append(out, "(MatchType, Name, Variant) was never added: "+vFmtMatch(m))
		}
		if !(1 <= m.StartLine && m.StartLine <= m.EndLine && m.EndLine <= res.TotalInputLines && res.TotalInputLines <= nl) {
			out = append(out, fmt.Sprintf("line numbers violate 1<=Start<=End<=Total(%d)<=lines(%d): %s", res.TotalInputLines, nl, vFmtMatch(m)))
		}
		if !(0 <= m.StartTokenIndex && m.StartTokenIndex <= m.EndTokenIndex && m.EndTokenIndex < len(toks)) {
			out = append(out, fmt.Sprintf("token indices violate 0<=Start<=End<%d: %s", len(toks), vFmtMatch(m)))
		}
		// independent of the tokenizer: a word never spans white space, so there are at most as many
		// words as white-space separated fields
		if nf := len(bytes.Fields(in)); m.EndTokenIndex >= nf {
			out = append(out, fmt.Sprintf("EndTokenIndex %d, but the input has only %d white-space separated words: %s", m.EndTokenIndex, nf, vFmtMatch(m)))
		}
	}
	return out
}

// shifted renders the matches with token indices and lines shifted, sorted.
func shifted(ms Matches, dTok, dLine int, skipCopyright bool) []string {
	var out []string
	for _, m := range ms {
		if m.MatchType == "Copyright" {
			if !skipCopyright {
				out = append(out, fmt.Sprintf("Copyright line=%d", m.StartLine+dLine))
			}
			continue
		}
		out = append(out, fmt.Sprintf("%s/%s/%s conf=%x lines=%d-%d toks=%d-%d", m.MatchType, m.Name, m.Variant,
			math.Float64bits(m.Confidence), m.StartLine+dLine, m.EndLine+dLine, m.StartTokenIndex+dTok, m.EndTokenIndex+dTok))
	}
	sort.Strings(out)
	return out
}

type c07Context struct {
	preWords, postWords int
	ownLines            bool
}

var c07SmallContexts = []c07Context{{1, 0, false}, {1, 0, true}, {3, 2, false}, {3, 2, true}, {8, 0, true}, {8, 2, false}, {1, 2, true}, {3, 0, false}}

// c07DistinctWords (contexts=distinct): the prefix consists of pairwise different words.
var c07DistinctWords bool

// vDistinctOOV: zqd + five letters, a different word for every i < 26^5.
func vDistinctOOV(i int) string {
	b := []byte("zqdaaaaa")
	for k := 7; k >= 3; k-- {
		b[k] = byte('a' + i%26)
		i /= 26
	}
	return string(b)
}

func oovWords(n, salt int) string {
	var w []string
	for i := 0; i < n; i++ {
		w = append(w, vOOV(salt+i))
	}
	return strings.Join(w, " ")
}

// embed places x after a prefix of OOV words and before a suffix.
func (cx c07Context) embed(x []byte) (in []byte, dTok, dLine int) {
	sep := " "
	if cx.ownLines {
		sep = "\n"
		dLine = 1
	}
	pre := oovWords(cx.preWords, 0)
	if c07DistinctWords {
		// every word of the prefix is a different spelling, in lines of 12 words
		var sb strings.Builder
		for i := 0; i < cx.preWords; i++ {
			if i > 0 {
				if i%12 == 0 {
					sb.WriteByte('\n')
					dLine++
				} else {
					sb.WriteByte(' ')
				}
			}
			sb.WriteString(vDistinctOOV(i))
		}
		pre = sb.String()
	}
	s := pre + sep + string(x)
	if cx.postWords > 0 {
		s += sep + oovWords(cx.postWords, 50)
	}
	return []byte(s), cx.preWords, dLine
}

// oracleC07 compares Match(x) with Match(embedded x).
func oracleC07(cl *Classifier, x []byte, alone Results, contexts []c07Context) (msgs []string, which []int) {
	want := shifted(alone.Matches, 0, 0, false)
	for ci, cx := range contexts {
		in, dTok, dLine := cx.embed(x)
		got := cl.Match(in)
		w := shifted(alone.Matches, dTok, dLine, false)
		g := shifted(got.Matches, 0, 0, false)
		if strings.Join(w, "\n") != strings.Join(g, "\n") {
			msgs = append(msgs, fmt.Sprintf("context %+v: alone %v but embedded %v", cx, want, shifted(got.Matches, -dTok, -dLine, false)))
			which = append(which, ci)
		}
	}
	return
}

func smallScope(c *vrep.Ctx, prop string) {
	vSmallSettings(c.Param("vocab", "ascii"), c.ParamInt("dictoffset", 0))
	vSmallSetReplace(c.Param("replace", "no") == "yes")
	maxLen := c.ParamInt("maxlen", c.Pick(7, 9))
	ts := []float64{0.5, 0.7, 0.8}
	if prop == "c03" {
		ts = []float64{0.05, 0.3, 0.5, 0.7, 0.8, 0.9, 1.0}
		maxLen = c.ParamInt("maxlen", c.Pick(6, 8))
	}
	if prop == "c07" {
		ts = []float64{0.8}
	}
	ncorp := len(vSmallCorpusShapes)
	if n := c.ParamInt("corpora", 0); n > 0 && n < ncorp {
		ncorp = n // the first n corpus shapes only
	}
	cls := make([][]*Classifier, ncorp)
	for i := range cls {
		for _, t := range ts {
			cls[i] = append(cls[i], vSmallClassifier(i, t))
		}
	}
	nlay := len(vLayouts)
	if prop == "c07" {
		nlay = 1 // the context supplies the line structure
	}
	c.R.Rule = fmt.Sprintf("small scope: ALL word strings of length <=%d over {aa,bb,cc,OOV} x %d corpora of 1-3 documents over {aa,bb,cc} (repetitive, periodic, nested, identical twins) x thresholds %v x %d line layouts; oracle %s; non-trivial = distinct (corpus, threshold, layout, input) cases in which Match returned at least one match", maxLen, ncorp, ts, nlay, prop)
	c.Bound("max_input_words", maxLen)
	c.Bound("vocabulary", fmt.Sprintf("%q (param vocab=%s)", vSmallVocab, c.Param("vocab", "ascii")))
	c.Bound("filler_words_before_the_vocabulary", vSmallFiller)
	c.Bound("documents_added_twice_(decoy_then_real_text)", vSmallReplace)
	c.Bound("corpora", ncorp)
	c.Bound("thresholds", fmt.Sprint(ts))
	body := func(r *vx.Run) {
		words := vChooseWords(r, vSmallAlphabet, 0, maxLen)
		if r.Scout() {
			return
		}
		var msgs []string
		matched := 0
		for ci := 0; ci < ncorp; ci++ {
			for ti := range ts {
				cl := cls[ci][ti]
				for lay := 0; lay < nlay; lay++ {
					in := vLayout(words, lay)
					if ci == 0 && ti == 0 {
						// the oracles below take the input's words from the package's own tokenizer; for these
						// plain inputs (letters only, blank or line-break separated) that must be the fields
						if tk := vWords(vTokenize(in)); strings.Join(tk, " ") != strings.Join(strings.Fields(string(in)), " ") {
							msgs = append(msgs, fmt.Sprintf("layout=%s: the tokenizer sees the words %q in a plain input whose white-space separated words are %q", vLayouts[lay], tk, strings.Fields(string(in))))
						}
					}
					res := cl.Match(in)
					c.R.Evaluations++
					if len(res.Matches) > 0 {
						matched++
						c.R.Nontrivial++
					}
					var ms []string
					switch prop {
					case "c02":
						ms = oracleC02(cl, vTokenize(in), res)
					case "c03":
						ms = oracleC03(cl, in, vTokenize(in), res)
					case "c07":
						if len(words) >= cl.q {
							ms, _ = oracleC07(cl, in, res, c07SmallContexts)
							c.R.Evaluations += int64(len(c07SmallContexts))
						}
					}
					for _, m := range ms {
						msgs = append(msgs, fmt.Sprintf("corpus#%d T=%v layout=%s: %s", ci, ts[ti], vLayouts[lay], m))
					}
				}
			}
		}
		r.Note = map[string]interface{}{"in": strings.Join(words, " "), "msgs": msgs, "matched": matched}
	}
	c.Run(vSplitExplorer(c, 0, 4), body, func(r *vx.Run) {
		c.R.Evaluations-- // counted per Match inside the body
		in := r.Note["in"].(string)
		if r.Note["matched"].(int) > 0 {
			c.Sample(map[string]interface{}{"input_words": in, "corpus_thresholds_layouts_with_a_match": r.Note["matched"]})
			c.Outcome(fmt.Sprint(r.Note["matched"]))
		}
		for _, m := range r.Note["msgs"].([]string) {
			// key: the specific input + corpus/threshold (first 3 fields of the message)
			f := strings.SplitN(m, ": ", 2)
			c.Violate(fmt.Sprintf("%s_small:%q:%s", prop, in, f[0]), fmt.Sprintf("input %q %s", in, m), r, m)
		}
	})
	// Nontrivial was counted directly (cases are distinct by construction: each (input, corpus, T, layout) is visited once)
}

func corpusScale(c *vrep.Ctx, prop string) {
	t, _ := strconv.ParseFloat(c.Param("t", "0.8"), 64)
	vCaseThreshold = t
	cl := vEmbeddedCached(t)
	if c.Param("trace", "off") == "all" {
		// every phase of every license traced into a sink (diagnostic code on the scoring path)
		cl = vEmbedded(t)
		cl.SetTraceConfiguration(&TraceConfiguration{TraceLicenses: "*", TracePhases: "*", Tracer: func(string, ...interface{}) {}})
		c.Bound("trace_configuration", "all phases, all licenses, no-op tracer")
	}
	docs := vDocPool(c.ParamInt("ndocs", c.Pick(48, 431)))
	if c.Param("docs", "") == "c07findings" {
		// the documents of the recorded C07 findings (so that the quick tier exhibits them too)
		want := map[string]bool{"License/BSD-Rice/license.txt": true, "License/GPL-3.0-with-autoconf-exception/license.txt": true, "License/IJG/license.txt": true,
			"License/InnerNet/license.txt": true, "License/MTK/pristine.txt": true, "License/OpenSSL/a.txt": true, "License/ZPL-2.1/license.txt": true}
		docs = nil
		for _, d := range vCorpusFiles() {
			if want[d.Key] {
				docs = append(docs, d)
			}
		}
	}
	if c.Param("docs", "") == "gnu" {
		// the documents of the GNU license families (texts with lesser / library / general / affero)
		docs = nil
		for _, d := range vCorpusFiles() {
			if strings.Contains(d.Key, "GPL") && len(d.Bytes) < c.Pick(9000, 1<<20) {
				docs = append(docs, d)
			}
		}
	}
	fams := strings.Split(c.Param("families", "exact,edit1,periodic,scatter,truncate,concat,scenario,edit2"), ",")
	c.R.Rule = fmt.Sprintf("corpus scale at T=%v: %d documents x edit-script families %v (single edits at 24 evenly spaced positions x {delete, substitute OOV, substitute vocabulary word, insert OOV}; edit pairs at 6 positions; periodic noise every 5..14 words; scattered irregular noise of 8-20%% density (low-discrepancy positions, mixed edit kinds); truncations 60-90%% from either end; pool concatenations; scenario files); oracle %s; non-trivial = distinct generated inputs for which Match returned at least one non-Copyright match", t, len(docs), fams, prop)
	c.Bound("documents", len(docs))
	c.Bound("threshold", t)
	contexts := []c07Context{{3, 2, true}, {40, 0, true}, {1, 5, true}}
	if c.Thorough() {
		contexts = append(contexts, c07Context{200, 5, true}, c07Context{7, 0, true}, c07Context{1, 1, true})
	}
	if c.Param("contexts", "") == "pow2" {
		// prefix lengths around the powers of two 512..8192 (block, chunk and table sizes): the copy
		// starts 3 words before .. 1 word after each of them
		contexts = nil
		for _, b := range []int{512, 1024, 2048, 4096, 8192} {
			for d := -3; d <= 1; d++ {
				contexts = append(contexts, c07Context{b + d, 40, true})
			}
		}
	}
	if c.Param("contexts", "") == "distinct" {
		// prefixes of pairwise different words whose number lies just below / above the powers of two
		// 2^12..2^17 (sizes of tables, caches and narrow integer types keyed by word or position)
		c07DistinctWords = true
		for w := range cl.dict.indices {
			if strings.HasPrefix(w, "zqd") {
				panic("a dictionary word looks like a generated prefix word: " + w)
			}
		}
		contexts = nil
		bs := []int{4096, 32768, 65536}
		if c.Thorough() {
			bs = []int{4096, 16384, 32768, 65536, 131072}
		}
		for _, b := range bs {
			for _, d := range []int{-40, -7, -1, 3} {
				contexts = append(contexts, c07Context{b + d, 20, true})
			}
		}
	}
	if c.Param("contexts", "") == "huge" {
		// unrelated blocks many times larger than the text (the target is then sparse in hits)
		contexts = []c07Context{{10000, 5000, true}, {30000, 0, true}, {0, 30000, true}}
	}
	seen := map[string]bool{}
	body := func(r *vx.Run) {
		cs := vChooseCorpusCase(r, docs, fams)
		if r.Scout() {
			return
		}
		if seen[cs.ID] {
			r.Note = map[string]interface{}{"dup": true}
			return
		}
		seen[cs.ID] = true
		res := cl.Match(cs.In)
		toks := vTokenize(cs.In)
		var msgs []string
		if c.Param("trace", "off") == "all" {
			// diagnostics must not change the answer
			if a, b := vFmt(res), vFmt(vEmbeddedCached(t).Match(cs.In)); a != b {
				msgs = append(msgs, fmt.Sprintf("with every trace phase on Match returns %s, without tracing %s", a, b))
			}
		}
		switch prop {
		case "c02":
			msgs = oracleC02(cl, toks, res)
		case "c03":
			msgs = oracleC03(cl, cs.In, toks, res)
		case "c07":
			if len(toks) >= cl.q {
				var which []int
				msgs, which = oracleC07(cl, cs.In, res, contexts)
				for i := range msgs {
					msgs[i] = fmt.Sprintf("ctx%d|%s", which[i], msgs[i])
				}
			}
		}
		nm := 0
		for _, m := range res.Matches {
			if m.MatchType != "Copyright" {
				nm++
			}
		}
		r.Note = map[string]interface{}{"id": cs.ID, "msgs": msgs, "matches": nm, "res": vFmt(res)}
	}
	c.Run(vSplitExplorer(c, 0, c.ParamInt("split", 2)), body, func(r *vx.Run) {
		if r.Note["dup"] != nil {
			c.R.Evaluations--
			return
		}
		id := r.Note["id"].(string)
		if r.Note["matches"].(int) > 0 {
			c.Nontrivial(id)
			c.Sample(map[string]interface{}{"case": id, "result": r.Note["res"]})
		}
		c.Outcome(r.Note["res"].(string))
		for _, m := range r.Note["msgs"].([]string) {
			key := fmt.Sprintf("%s_corpus:T%v:%s", prop, t, id)
			// C07: the identity of a failing case is (document, edit script); the contexts in which it
			// fails are part of the message
			c.Violate(strings.ReplaceAll(key, " ", "_"), fmt.Sprintf("%s: %s", id, m), r, m)
		}
	})
}

// c03Bytes: byte-level inputs (line structure, copyright lines, dates,
// markers) against small corpora.
func c03Bytes(c *vrep.Ctx) {
	// incl. words glued by character references that stand for white space, and a word with control
	// characters inside (one input word each)
	syms := []string{"aa", "bb", "cc", "zqoov", "\n", "\r\n", "-\n", " ", "copyright 2000 foo\n", "2020-01-02\n", "1.", "(c)", "aa-", "aa&#32;bb&nbsp;cc", "aa&#x20;bb", "a\x01a\x1bb\x00b\x7fcc", strings.Repeat("x", 4097), strings.Repeat("y", 9000)}
	maxLen := c.Pick(4, 5)
	ts := []float64{0.05, 0.5, 0.8, 1.0}
	corp := []int{0, 1, 8, 9, 11}
	var cls []*Classifier
	for _, ci := range corp {
		for _, t := range ts {
			cls = append(cls, vSmallClassifier(ci, t))
		}
	}
	var symNames []string
	for _, sy := range syms {
		if len(sy) > 100 {
			sy = fmt.Sprintf("<%d-letter word>", len(sy))
		}
		symNames = append(symNames, sy)
	}
	c.R.Rule = fmt.Sprintf("all strings of <=%d symbols over %q (symbols separated by a blank unless they end in a newline) x %d small corpora x thresholds %v; C03 well-formedness oracle; non-trivial = cases with at least one match (Copyright included)", maxLen, symNames, len(corp), ts)
	c.Bound("max_symbols", maxLen)
	body := func(r *vx.Run) {
		n := r.Choose(maxLen+1, "len")
		var sb strings.Builder
		for i := 0; i < n; i++ {
			k := len(syms)
			if i > 0 {
				k -= 2 // the two very long words only open a text
			}
			s := syms[r.Choose(k, "sym")]
			sb.WriteString(s)
			if !strings.HasSuffix(s, "\n") && s != " " {
				sb.WriteByte(' ')
			}
		}
		if r.Scout() {
			return
		}
		in := []byte(sb.String())
		toks := vTokenize(in)
		var msgs []string
		nm := 0
		for _, cl := range cls {
			res := cl.Match(in)
			c.R.Evaluations++
			if len(res.Matches) > 0 {
				nm++
				c.R.Nontrivial++
			}
			for _, m := range oracleC03(cl, in, toks, res) {
				msgs = append(msgs, fmt.Sprintf("T=%v docs=%d: %s", cl.threshold, len(cl.docs), m))
			}
		}
		r.Note = map[string]interface{}{"in": string(in), "msgs": msgs, "nm": nm}
	}
	c.Run(vSplitExplorer(c, 0, 3), body, func(r *vx.Run) {
		c.R.Evaluations--
		if r.Note["nm"].(int) > 0 {
			c.Sample(map[string]interface{}{"input": r.Note["in"]})
		}
		for _, m := range r.Note["msgs"].([]string) {
			c.Violate(fmt.Sprintf("c03_bytes:%q:%s", r.Note["in"], strings.SplitN(m, ":", 2)[0]), fmt.Sprintf("input %q: %s", r.Note["in"], m), r, m)
		}
	})
}

// c03Names: category/name/variant strings without a path separator.
func c03Names(c *vrep.Ctx) {
	strs := []string{"License", "Header", "x", "a.b", "名", " ", "", "a b", "..", "Copyright", "l\\n"}
	c.R.Rule = "all (category, name, variant) triples over a menu of 11 strings without path separator (dots, blanks, empty, non-ASCII) for a one-document corpus; the match must carry exactly the triple that was added; non-trivial = distinct triples"
	body := func(r *vx.Run) {
		cat := strs[r.Choose(len(strs), "category")]
		name := strs[r.Choose(len(strs), "name")]
		variant := strs[r.Choose(len(strs), "variant")]
		cl := NewClassifier(0.8)
		msg := vPanics(func() {
			cl.AddContent(cat, name, variant, []byte("aa bb cc aa bb"))
			res := cl.Match([]byte("zqa zqb\naa bb cc aa bb\nzqc"))
			if len(res.Matches) != 1 {
				panic(fmt.Sprintf("expected exactly one match, got %s", vFmt(res)))
			}
			m := res.Matches[0]
			if m.MatchType != cat || m.Name != name || m.Variant != variant {
				panic(fmt.Sprintf("match carries (%q,%q,%q)", m.MatchType, m.Name, m.Variant))
			}
		})
		r.Note = map[string]interface{}{"triple": fmt.Sprintf("%q/%q/%q", cat, name, variant), "msg": msg}
	}
	c.Run(c.Explorer(0), body, func(r *vx.Run) {
		c.Nontrivial(r.Note["triple"].(string))
		c.Sample(r.Note["triple"])
		if m := r.Note["msg"].(string); m != "" {
			c.Violate("c03_names:"+r.Note["triple"].(string), fmt.Sprintf("corpus triple %s: %s", r.Note["triple"], m), r, m)
		}
	})
}
