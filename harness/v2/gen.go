//go:build verif && go1.21

package classifier

// Input generators shared by C02, C03, C04, C07, C09, C11: the small-scope
// input space and the corpus-scale edit-script families.

import (
	"bytes"
	"fmt"
	"math"
	"sort"
	"strings"

	"verifh/vx"
)

// vLayouts arrange a word string on lines.
var vLayouts = []string{"one-line", "word-per-line", "break-every-3"}

func vLayout(words []string, layout int) []byte {
	var sb strings.Builder
	for i, w := range words {
		if i > 0 {
			switch layout {
			case 0:
				sb.WriteByte(' ')
			case 1:
				sb.WriteByte('\n')
			default:
				if i%3 == 0 {
					sb.WriteByte('\n')
				} else {
					sb.WriteByte(' ')
				}
			}
		}
		sb.WriteString(w)
	}
	return []byte(sb.String())
}

// vDocPool returns n documents spread evenly over the (size-sorted) corpus,
// always including the c01 pool.
func vDocPool(n int) []vDoc {
	all := append([]vDoc(nil), vCorpusFiles()...)
	if n >= len(all) {
		return all
	}
	sort.SliceStable(all, func(i, j int) bool { return len(all[i].Bytes) < len(all[j].Bytes) })
	seen := map[string]bool{}
	var out []vDoc
	for _, d := range c01PoolDocs() {
		if !seen[d.Key] && len(out) < n {
			seen[d.Key] = true
			out = append(out, d)
		}
	}
	for i := 0; len(out) < n && i < n; i++ {
		d := all[i*len(all)/n]
		if !seen[d.Key] {
			seen[d.Key] = true
			out = append(out, d)
		}
	}
	sort.Slice(out, func(i, j int) bool { return out[i].Key < out[j].Key })
	return out
}

// vText is a document as lines of whitespace-delimited words.
type vText [][]string

func vParse(b []byte) vText {
	var t vText
	for _, l := range strings.Split(string(b), "\n") {
		t = append(t, strings.Fields(l))
	}
	return t
}

func (t vText) bytes() []byte {
	var sb strings.Builder
	for i, l := range t {
		if i > 0 {
			sb.WriteByte('\n')
		}
		sb.WriteString(strings.Join(l, " "))
	}
	return []byte(sb.String())
}

func (t vText) nwords() int {
	n := 0
	for _, l := range t {
		n += len(l)
	}
	return n
}

func (t vText) clone() vText {
	c := make(vText, len(t))
	for i := range t {
		c[i] = append([]string(nil), t[i]...)
	}
	return c
}

// locate returns line/column of the k-th word.
func (t vText) locate(k int) (int, int) {
	for i, l := range t {
		if k < len(l) {
			return i, k
		}
		k -= len(l)
	}
	return -1, -1
}

const (
	vEditDelete = iota
	vEditSubOOV
	vEditSubVocab
	vEditInsertOOV
	vNumEditKinds
)

var vEditNames = []string{"delete", "sub-oov", "sub-vocab", "insert-oov"}

// apply performs one edit at word position k (position in the ORIGINAL
// numbering is the caller's business).
func (t vText) apply(kind, k, salt int) {
	i, j := t.locate(k)
	if i < 0 {
		return
	}
	switch kind {
	case vEditDelete:
		t[i] = append(t[i][:j:j], t[i][j+1:]...)
	case vEditSubOOV:
		t[i][j] = vOOV(salt)
	case vEditSubVocab:
		t[i][j] = vVocabWord
	case vEditInsertOOV:
		l := append([]string(nil), t[i][:j]...)
		l = append(l, vOOV(salt))
		t[i] = append(l, t[i][j:]...)
	}
}

// vVocabWord: the in-vocabulary word that edit kind sub-vocab puts in.
var vVocabWord = "license"

// vScatterSalts: number of position patterns per (document, density) in family "scatter".
var vScatterSalts = 4

// vCase is one generated corpus-scale input.
type vCase struct {
	ID   string // deterministic identity (document, edit script)
	In   []byte
	Base string // corpus key of the base document ("" for scenarios)
}

// vCaseThreshold: the threshold of the job that draws the cases (set by corpusScale).
var vCaseThreshold = 0.8

var vPoolVocabCache = map[string]map[string]bool{}

// vPoolVocab: the lower-case alphabetic words of a document pool (as white-space separated fields).
func vPoolVocab(docs []vDoc) map[string]bool {
	key := fmt.Sprint(len(docs), docs[0].Key, docs[len(docs)-1].Key)
	if v, ok := vPoolVocabCache[key]; ok {
		return v
	}
	v := map[string]bool{}
	for _, d := range docs {
		for _, f := range strings.Fields(strings.ToLower(string(d.Bytes))) {
			f = strings.Trim(f, ".,;:()\"'")
			ok := f != ""
			for i := 0; i < len(f); i++ {
				if f[i] < 'a' || f[i] > 'z' {
					ok = false
				}
			}
			if ok {
				v[f] = true
			}
		}
	}
	vPoolVocabCache[key] = v
	return v
}

type vResplitDoc struct {
	doc                 int
	joins, splits, cuts []int
}

var vResplitCache = map[string][]vResplitDoc{}

// vResplitDocs: the documents of the pool with at least one pair of neighbouring lower-case words
// whose concatenation is a vocabulary word and one word that is the concatenation of two.
func vResplitDocs(docs []vDoc) []vResplitDoc {
	key := fmt.Sprint(len(docs), docs[0].Key, docs[len(docs)-1].Key)
	if v, ok := vResplitCache[key]; ok {
		return v
	}
	vocab := vPoolVocab(docs)
	alpha := func(x string) bool {
		for i := 0; i < len(x); i++ {
			if x[i] < 'a' || x[i] > 'z' {
				return false
			}
		}
		return len(x) > 0
	}
	var out []vResplitDoc
	for di, d := range docs {
		w := strings.Fields(string(d.Bytes))
		rd := vResplitDoc{doc: di}
		for i := range w {
			if !alpha(w[i]) {
				continue
			}
			if i+1 < len(w) && alpha(w[i+1]) && vocab[w[i]+w[i+1]] {
				rd.joins = append(rd.joins, i)
			}
			for c := 2; c+2 <= len(w[i]); c++ {
				if vocab[w[i][:c]] && vocab[w[i][c:]] {
					rd.splits = append(rd.splits, i)
					rd.cuts = append(rd.cuts, c)
					break
				}
			}
		}
		if len(rd.joins) > 0 && len(rd.splits) > 0 {
			out = append(out, rd)
		}
	}
	vResplitCache[key] = out
	return out
}

// vChooseCorpusCase lets the explorer pick one corpus-scale input from the
// edit-script families. docs is the document pool of this tier.
func vChooseCorpusCase(r *vx.Run, docs []vDoc, families []string) vCase {
	fam := families[r.Choose(len(families), "family")]
	switch fam {
	case "exact":
		d := docs[r.Choose(len(docs), "doc")]
		return vCase{"exact:" + d.Key, d.Bytes, d.Key}
	case "window":
		// the tokenizer reads through a 1024-byte buffer and scans 1020 bytes of it at a time: a filler
		// line of EVERY length 0..1023 shifts the rest of the text through every alignment with those
		// boundaries; the text behind it is rich in what can straddle one (CRLF pairs, 2- and 3-byte
		// letters, typographic punctuation, hyphenated line breaks), then comes the document
		nd := len(docs)
		if nd > 3 {
			nd = 3
		}
		d := docs[r.Choose(nd, "doc")]
		variant := r.Choose(len(vWindowVariants), "variant")
		pad := r.Choose(1024, "pad")
		return vCase{fmt.Sprintf("window:%s:%s:pad%d", d.Key, vWindowVariants[variant], pad), vWindowText(d.Bytes, variant, pad), d.Key}
	case "recase":
		// letter case changed (the tokenizer lower-cases; Normalize keeps the case of a word's first
		// rune): URL schemes capitalised, URLs upper-cased, all ASCII letters upper-cased, every word
		// capitalised
		d := docs[r.Choose(len(docs), "doc")]
		kind := r.Choose(4, "recase")
		return vCase{fmt.Sprintf("recase:%s:%s", d.Key, vRecaseNames[kind]), vRecase(d.Bytes, kind), d.Key}
	case "edit1":
		d := docs[r.Choose(len(docs), "doc")]
		pos := r.Choose(24, "pos")
		kind := r.Choose(vNumEditKinds, "kind")
		t := vParse(d.Bytes)
		n := t.nwords()
		if n == 0 {
			return vCase{"exact:" + d.Key, d.Bytes, d.Key}
		}
		k := pos * n / 24
		t.apply(kind, k, pos)
		return vCase{fmt.Sprintf("edit1:%s:%s@%d", d.Key, vEditNames[kind], k), t.bytes(), d.Key}
	case "edit2":
		d2 := docs
		if len(d2) > 12 && len(docs) < 100 {
			d2 = docs[:12] // quick tier: edit pairs on a 12-document sub-pool
		}
		d := d2[r.Choose(len(d2), "doc")]
		pair := r.Choose(15, "pos-pair")
		p1, p2 := 0, 1
		for x := 0; x < pair; x++ {
			p2++
			if p2 == 6 {
				p1++
				p2 = p1 + 1
			}
		}
		k1 := r.Choose(vNumEditKinds, "kind1")
		k2 := r.Choose(vNumEditKinds, "kind2")
		t := vParse(d.Bytes)
		n := t.nwords()
		if n < 12 {
			return vCase{"exact:" + d.Key, d.Bytes, d.Key}
		}
		a, b := p1*n/6+n/12, p2*n/6+n/12
		t.apply(k2, b, 7) // later position first so indices stay valid
		t.apply(k1, a, 3)
		return vCase{fmt.Sprintf("edit2:%s:%s@%d+%s@%d", d.Key, vEditNames[k1], a, vEditNames[k2], b), t.bytes(), d.Key}
	case "periodic":
		// every p-th word (phase ph) substituted by an OOV word or deleted: noisy texts
		d := docs[r.Choose(len(docs), "doc")]
		ps := []int{5, 6, 7, 8, 10, 14}
		p := ps[r.Choose(len(ps), "period")]
		ph := r.Choose(3, "phase")
		kind := r.Choose(2, "kind")
		t := vParse(d.Bytes)
		n := t.nwords()
		for k := n - 1; k >= 0; k-- {
			if k%p == ph%p {
				t.apply(kind, k, k)
			}
		}
		return vCase{fmt.Sprintf("periodic:%s:%s every %d phase %d", d.Key, vEditNames[kind], p, ph), t.bytes(), d.Key}
	case "deeplines":
		// the document far down the input: behind N lines (blank, or one unrelated word each) for N
		// just below / above 2^15 and 2^16 (line numbers beyond what a narrow integer holds)
		nd := len(docs)
		if nd > 6 {
			nd = 6
		}
		d := docs[r.Choose(nd, "doc")]
		var ns []int
		for _, b := range []int{1 << 15, 1 << 16} {
			for dd := -3; dd <= 2; dd++ {
				ns = append(ns, b+dd)
			}
		}
		n := ns[r.Choose(len(ns), "lines")]
		kind := r.Choose(2, "line kind")
		var sb strings.Builder
		for i := 0; i < n; i++ {
			if kind == 1 {
				sb.WriteString(vOOV(i))
			}
			sb.WriteByte('\n')
		}
		sb.Write(d.Bytes)
		sb.WriteString("\n" + vOOVBlock(1, 3, 5))
		return vCase{fmt.Sprintf("deeplines:%s:%d %s lines first", d.Key, n, []string{"blank", "one-word"}[kind]), []byte(sb.String()), d.Key}
	case "resplit":
		// the document verbatim, a filler block, and the document again with the SAME letters cut into
		// words differently at two places: two neighbouring words written as one ("can not" ->
		// "cannot") and one word written as two ("sublicense" -> "sub license"), every piece being a
		// word of the pool's vocabulary; the second copy has as many words as the first. Only the
		// documents of the pool that have both kinds of places take part.
		cands := vResplitDocs(docs)
		if len(cands) == 0 {
			return vCase{"exact:" + docs[0].Key, docs[0].Bytes, docs[0].Key}
		}
		rc := cands[r.Choose(len(cands), "doc")]
		jc, sc := r.Choose(4, "join"), r.Choose(4, "split")
		d := docs[rc.doc]
		w := strings.Fields(string(d.Bytes))
		ji := rc.joins[jc*len(rc.joins)/4]
		sk := sc * len(rc.splits) / 4
		si, cut := rc.splits[sk], rc.cuts[sk]
		if si == ji || si == ji+1 {
			return vCase{"exact:" + d.Key, d.Bytes, d.Key}
		}
		var out []string
		for i := 0; i < len(w); i++ {
			switch {
			case i == ji:
				out = append(out, w[i]+w[i+1])
				i++
			case i == si:
				out = append(out, w[i][:cut], w[i][cut:])
			default:
				out = append(out, w[i])
			}
		}
		var sb strings.Builder
		sb.Write(d.Bytes)
		sb.WriteString("\n" + vOOVBlock(1, 3, 9) + "\n")
		for i, x := range out {
			sb.WriteString(x)
			if i%12 == 11 {
				sb.WriteByte('\n')
			} else {
				sb.WriteByte(' ')
			}
		}
		sb.WriteString("\n")
		return vCase{fmt.Sprintf("resplit:%s:%q+%q joined, %q cut after %d", d.Key, w[ji], w[ji+1], w[si], cut), []byte(sb.String()), d.Key}
	case "headcut":
		// the document without its first k words (or its last k), for k around the number of words
		// the job's threshold allows to be missing: round(n*(1-T)) - 2 .. + 1
		d := docs[r.Choose(len(docs), "doc")]
		delta := r.Choose(4, "delta") - 2
		tail := r.Choose(2, "end") == 1
		w := vWords(vTokenize(d.Bytes)) // the words as the tokenizer sees them: k counts tokens
		k := int(math.Round(float64(len(w))*(1-vCaseThreshold))) + delta
		if len(w) < 24 || k < 1 || k >= len(w)-8 {
			return vCase{"exact:" + d.Key, d.Bytes, d.Key}
		}
		kept := w[k:]
		if tail {
			kept = w[:len(w)-k]
		}
		var sb strings.Builder
		for i, x := range kept {
			sb.WriteString(x)
			if i%12 == 11 {
				sb.WriteByte('\n')
			} else {
				sb.WriteByte(' ')
			}
		}
		sb.WriteString("\n")
		return vCase{fmt.Sprintf("headcut:%s:%d of %d words cut at the %s", d.Key, k, len(w), map[bool]string{false: "start", true: "end"}[tail]), []byte(sb.String()), d.Key}
	case "moved":
		// a word, or a run of three words, of the document moved a few places forward (an adjacent
		// swap, or across 2, 3, 5 words): nothing is missing or new, only the order differs
		nd := len(docs)
		d := docs[r.Choose(nd, "doc")]
		pos := r.Choose(8, "pos")
		run := []int{1, 3}[r.Choose(2, "run")]
		dist := []int{1, 2, 3, 5}[r.Choose(4, "distance")]
		w := strings.Fields(string(d.Bytes))
		if len(w) < 24 {
			return vCase{"exact:" + d.Key, d.Bytes, d.Key}
		}
		at := pos * (len(w) - run - dist - 1) / 8
		moved := append([]string(nil), w[:at]...)
		moved = append(moved, w[at+run:at+run+dist]...)
		moved = append(moved, w[at:at+run]...)
		moved = append(moved, w[at+run+dist:]...)
		var sb strings.Builder
		sb.WriteString(vOOVBlock(1, 3, 2))
		for i, x := range moved {
			sb.WriteString(x)
			if i%12 == 11 {
				sb.WriteByte('\n')
			} else {
				sb.WriteByte(' ')
			}
		}
		sb.WriteString("\n" + vOOVBlock(1, 2, 8))
		return vCase{fmt.Sprintf("moved:%s:%d word(s) at %d moved across %d", d.Key, run, at, dist), []byte(sb.String()), d.Key}
	case "bigvocab":
		// the document behind a text with N DISTINCT spellings, N a little below a power of two, so
		// that the document's own words cross the boundary in the middle of one of its lines; with
		// case = mixed every second filler word is capitalised (the spellings as written and the
		// lower-cased spellings then differ in number)
		nd := len(docs)
		if nd > 4 {
			nd = 4
		}
		d := docs[r.Choose(nd, "doc")]
		ns := []int{2030, 4046, 4090, 8142, 16334, 32718, 65486}
		n := ns[r.Choose(len(ns), "spellings")]
		mixed := r.Choose(2, "case") == 1
		var sb strings.Builder
		for i := 0; i < n; i++ {
			w := "v" + string(rune('a'+i%26)) + string(rune('a'+(i/26)%26)) + string(rune('a'+(i/676)%26)) + string(rune('a'+(i/17576)%26)) + "q"
			if mixed && i%2 == 1 {
				// the previous word again, capitalised: a new spelling only as written
				w = "V" + string(rune('a'+(i-1)%26)) + string(rune('a'+((i-1)/26)%26)) + string(rune('a'+((i-1)/676)%26)) + string(rune('a'+((i-1)/17576)%26)) + "q"
			}
			sb.WriteString(w)
			if i%11 == 10 {
				sb.WriteByte('\n')
			} else {
				sb.WriteByte(' ')
			}
		}
		sb.WriteString("\n")
		sb.Write(d.Bytes)
		sb.WriteString("\n" + vOOVBlock(1, 3, 5))
		return vCase{fmt.Sprintf("bigvocab:%s:%d spellings first, case %v", d.Key, n, map[bool]string{false: "lower", true: "mixed"}[mixed]), []byte(sb.String()), d.Key}
	case "wordset":
		// the document's DISTINCT words, each once, in order of first occurrence (or reversed): nearly
		// all of its vocabulary in far fewer tokens than the document has
		d := docs[r.Choose(len(docs), "doc")]
		kind := r.Choose(3, "order")
		seen := map[string]bool{}
		var ws []string
		for _, w := range strings.Fields(string(d.Bytes)) {
			lw := strings.ToLower(w)
			if !seen[lw] {
				seen[lw] = true
				ws = append(ws, w)
			}
		}
		switch kind {
		case 1:
			for i, j := 0, len(ws)-1; i < j; i, j = i+1, j-1 {
				ws[i], ws[j] = ws[j], ws[i]
			}
		case 2:
			// the first sentence intact (shares q-grams with the document), then the rest of the vocabulary
			first := strings.Fields(string(d.Bytes))
			if len(first) > 12 {
				first = first[:12]
			}
			ws = append(append([]string(nil), first...), ws...)
		}
		return vCase{fmt.Sprintf("wordset:%s:%s", d.Key, []string{"first occurrence order", "reversed", "first 12 words + vocabulary"}[kind]), []byte(strings.Join(ws, " ")), d.Key}
	case "clusters":
		// k edits of mixed kinds at positions from a fixed pseudo-random sequence (linear congruential,
		// enumerated by its start value): unlike "scatter" the edits come in clumps and leave long
		// clean runs - the shapes in which an alignment is ambiguous
		d := docs[r.Choose(len(docs), "doc")]
		k := []int{8, 12, 16, 24}[r.Choose(4, "edits")]
		x := uint32(r.Choose(vScatterSalts, "start"))*2654435761 + 12345
		t := vParse(d.Bytes)
		n := t.nwords()
		if n < 30 {
			return vCase{"exact:" + d.Key, d.Bytes, d.Key}
		}
		type ed struct{ pos, kind int }
		var eds []ed
		used := map[int]bool{}
		for len(eds) < k && len(eds) < n/2 {
			x = x*1664525 + 1013904223
			p := int((x >> 8) % uint32(n))
			if used[p] {
				continue
			}
			used[p] = true
			eds = append(eds, ed{p, int((x >> 4) % vNumEditKinds)})
		}
		sort.Slice(eds, func(i, j int) bool { return eds[i].pos > eds[j].pos })
		for i, e := range eds {
			t.apply(e.kind, e.pos, i)
		}
		return vCase{fmt.Sprintf("clusters:%s:%d edits:start%d", d.Key, k, x), t.bytes(), d.Key}
	case "oneline":
		// the whole document on ONE physical line (a minified file, a JSON string), alone or followed
		// by a second, normally wrapped document
		d := docs[r.Choose(len(docs), "doc")]
		kind := r.Choose(3, "what follows")
		one := strings.Join(strings.Fields(string(d.Bytes)), " ")
		in := one
		switch kind {
		case 1:
			in = one + "\n" + vOOVBlock(1, 4, 3) + string(docs[(r.Choices[len(r.Choices)-2]+1)%len(docs)].Bytes)
		case 2:
			in = vOOVBlock(1, 3, 1) + one + " " + vOOV(7) + " " + one + "\n"
		}
		return vCase{fmt.Sprintf("oneline:%s:%s", d.Key, []string{"alone", "then another document", "twice on one line"}[kind]), []byte(in), d.Key}
	case "hyphenwall":
		// a text of 70..260 KB in which EVERY line ends in a word that is continued on the next line
		// (wherever a large input may be cut into pieces, the cut follows a hyphenated line break),
		// then the document
		nd := len(docs)
		if nd > 3 {
			nd = 3
		}
		d := docs[r.Choose(nd, "doc")]
		kb := []int{70, 130, 260}[r.Choose(3, "size")]
		width := []int{3, 7}[r.Choose(2, "words per line")]
		var sb strings.Builder
		for i := 0; sb.Len() < kb*1024; i++ {
			for w := 0; w < width; w++ {
				sb.WriteString(vOOV(i*width + w))
				sb.WriteByte(' ')
			}
			sb.WriteString("zqhy-\nphen ")
		}
		sb.WriteString("\n")
		sb.Write(d.Bytes)
		return vCase{fmt.Sprintf("hyphenwall:%s:%d KB of lines of %d words ending in a split word", d.Key, kb, width), []byte(sb.String()), d.Key}
	case "specialwords":
		// the words the scorer has rules of its own for in GNU texts (lesser / library / general /
		// affero / gnu), one occurrence at a time: replaced by each of the others, deleted, or
		// preceded by one of them
		d := docs[r.Choose(len(docs), "doc")]
		special := []string{"lesser", "library", "general", "affero", "gnu"}
		t := vParse(d.Bytes)
		type occ struct{ k int }
		var occs []int
		k := 0
		for _, l := range t {
			for _, w := range l {
				lw := strings.ToLower(strings.Trim(w, ".,;:()\"'"))
				for _, sp := range special {
					if lw == sp {
						occs = append(occs, k)
					}
				}
				k++
			}
		}
		if len(occs) == 0 {
			return vCase{"exact:" + d.Key, d.Bytes, d.Key}
		}
		if len(occs) > 12 {
			occs = occs[:12]
		}
		pos := occs[r.Choose(len(occs), "occurrence")]
		op := r.Choose(2*len(special)+1, "replacement")
		i, j := t.locate(pos)
		old := t[i][j]
		desc := ""
		switch {
		case op == 2*len(special):
			t[i] = append(t[i][:j:j], t[i][j+1:]...)
			desc = "deleted"
		case op < len(special):
			nw := special[op]
			if old != "" && old[0] >= 'A' && old[0] <= 'Z' {
				nw = strings.ToUpper(nw[:1]) + nw[1:]
			}
			t[i][j] = nw
			desc = "replaced by " + nw
		default:
			nw := special[op-len(special)]
			l := append([]string(nil), t[i][:j]...)
			l = append(l, nw)
			t[i] = append(l, t[i][j:]...)
			desc = "preceded by " + nw
		}
		return vCase{fmt.Sprintf("specialwords:%s:word %d (%s) %s", d.Key, pos, old, desc), t.bytes(), d.Key}
	case "edit3":
		// three edits of any kinds at any three of 14 evenly spread positions
		d := docs[r.Choose(len(docs), "doc")]
		t := vParse(d.Bytes)
		n := t.nwords()
		if n < 30 {
			return vCase{"exact:" + d.Key, d.Bytes, d.Key}
		}
		const np = 14
		a := r.Choose(np-2, "pos1")
		b := a + 1 + r.Choose(np-2-a, "pos2")
		cpos := b + 1 + r.Choose(np-1-b, "pos3")
		k1 := r.Choose(vNumEditKinds, "kind1")
		k2 := r.Choose(vNumEditKinds, "kind2")
		k3 := r.Choose(vNumEditKinds, "kind3")
		pa, pb, pc := a*n/np+1, b*n/np+2, cpos*n/np+3
		t.apply(k3, pc, 11) // later positions first so indices stay valid
		t.apply(k2, pb, 7)
		t.apply(k1, pa, 3)
		return vCase{fmt.Sprintf("edit3:%s:%s@%d+%s@%d+%s@%d", d.Key, vEditNames[k1], pa, vEditNames[k2], pb, vEditNames[k3], pc), t.bytes(), d.Key}
	case "longnotice":
		// a copyright notice line of EVERY raw length from about 60 to 1100 bytes, made of words that are
		// much shorter once cleaned up (addresses in angle brackets), in front of the document: raw and
		// normalised form of the same line lie on different sides of any length limit in between
		nd := len(docs)
		if nd > 2 {
			nd = 2
		}
		d := docs[r.Choose(nd, "doc")]
		k := 4 + r.Choose(81, "addresses")
		pad := r.Choose(13, "pad")
		var sb strings.Builder
		// (no "(c)": cleaned up it would be a bare "c", and the cleaned line no notice any more)
		sb.WriteString("Copyright 2001")
		for i := 0; i < k; i++ {
			fmt.Fprintf(&sb, " <%c%c@%c%c.org>,", 'a'+i%26, 'a'+(i/26)%26, 'k'+i%7, 'b'+i%11)
		}
		sb.WriteString(" " + strings.Repeat("z", pad) + "x")
		line := sb.String()
		return vCase{fmt.Sprintf("longnotice:%s:%d bytes", d.Key, len(line)), []byte(line + "\n" + string(d.Bytes)), d.Key}
	case "selfrepeat":
		// parts of the text occur twice in one input: the document twice, its longest line (as it is,
		// or a whole paragraph joined into one line) ahead of it or behind it
		d := docs[r.Choose(len(docs), "doc")]
		kind := r.Choose(5, "repeat")
		text := string(d.Bytes)
		lines := strings.Split(text, "\n")
		longest := ""
		for _, l := range lines {
			if len(l) > len(longest) {
				longest = l
			}
		}
		var in string
		switch kind {
		case 0:
			in = text + "\n" + text
		case 1:
			in = longest + "\n" + vOOVBlock(1, 4, 3) + text
		case 2:
			in = text + "\n" + vOOVBlock(1, 4, 3) + longest + "\n"
		case 3, 4:
			// one line per paragraph
			var paras, cur []string
			for _, l := range lines {
				if strings.TrimSpace(l) == "" {
					if len(cur) > 0 {
						paras = append(paras, strings.Join(cur, " "))
						cur = nil
					}
					continue
				}
				cur = append(cur, strings.TrimSpace(l))
			}
			if len(cur) > 0 {
				paras = append(paras, strings.Join(cur, " "))
			}
			u := strings.Join(paras, "\n")
			lp := ""
			for _, p := range paras {
				if len(p) > len(lp) {
					lp = p
				}
			}
			if kind == 3 {
				in = u + "\n" + vOOVBlock(1, 4, 3) + u
			} else {
				in = lp + "\n" + vOOVBlock(1, 4, 3) + u
			}
		}
		return vCase{fmt.Sprintf("selfrepeat:%s:%s", d.Key, []string{"document twice", "longest line, filler, document", "document, filler, longest line", "one line per paragraph, twice", "longest paragraph line, filler, one line per paragraph"}[kind]), []byte(in), d.Key}
	case "boundary":
		// edit totals placed ON the rejection boundary: with K the token count of the document, a total
		// of K*pct/100 + delta edited words (pct 10/20/30 for thresholds 0.9/0.8/0.7) - as single
		// inserted OOV words evenly spread (every word of the document stays in a run), or as blocks of
		// five words that are alternately inserted and removed
		d := docs[r.Choose(len(docs), "doc")]
		pct := []int{10, 20, 30}[r.Choose(3, "pct")]
		delta := []int{-1, 0, 1, 2, 4}[r.Choose(5, "delta")]
		style := r.Choose(2, "style")
		t := vParse(d.Bytes)
		n := t.nwords()
		total := len(vTokenize(d.Bytes))*pct/100 + delta
		if total < 1 || n < 20 {
			return vCase{"exact:" + d.Key, d.Bytes, d.Key}
		}
		if style == 0 {
			for i := total; i >= 1; i-- { // later positions first so indices stay valid
				t.apply(vEditInsertOOV, i*n/(total+1), i)
			}
		} else {
			blocks := (total + 4) / 5
			left := total
			for b := blocks; b >= 1; b-- {
				size := 5
				if b == blocks && total%5 != 0 {
					size = total % 5
				}
				at := b * n / (blocks + 1)
				for k := 0; k < size && left > 0; k++ {
					if b%2 == 1 {
						t.apply(vEditInsertOOV, at, b*7+k)
					} else {
						t.apply(vEditDelete, at, 0)
					}
					left--
				}
			}
		}
		return vCase{fmt.Sprintf("boundary:%s:%d%%%+d:%s", d.Key, pct, delta, []string{"single-insertions", "blocks-of-5"}[style]), t.bytes(), d.Key}
	case "scatter":
		// dense irregular noise: positions from a fixed low-discrepancy sequence (golden-ratio
		// rotation), density 8..20%, mixed edit kinds; deterministic, enumerated by (doc, density, salt)
		d := docs[r.Choose(len(docs), "doc")]
		dens := []int{8, 12, 15, 18, 20}[r.Choose(5, "density")]
		salt := r.Choose(vScatterSalts, "salt")
		t := vParse(d.Bytes)
		n := t.nwords()
		k := n * dens / 100
		pos := map[int]int{}
		x := 0.1 + 0.2*float64(salt) + 0.013*float64(salt/5)
		x -= float64(int(x))
		for i := 0; i < k; i++ {
			x += 0.6180339887498949
			x -= float64(int(x))
			pos[int(x*float64(n))] = (i + salt) % vNumEditKinds
		}
		var ps []int
		for p := range pos {
			ps = append(ps, p)
		}
		sort.Sort(sort.Reverse(sort.IntSlice(ps)))
		for _, p := range ps {
			t.apply(pos[p], p, p)
		}
		return vCase{fmt.Sprintf("scatter:%s:%d%%:salt%d", d.Key, dens, salt), t.bytes(), d.Key}
	case "partnoise":
		// noise confined to one part of the text (head, tail, middle third): every p-th word there is
		// replaced, the rest is intact - short runs on one side of a long clean run
		d := docs[r.Choose(len(docs), "doc")]
		part := r.Choose(3, "part")
		p := []int{4, 6, 10}[r.Choose(3, "period")]
		frac := []int{4, 3}[r.Choose(2, "fraction")] // a quarter / a third of the text
		t := vParse(d.Bytes)
		n := t.nwords()
		lo, hi := 0, n/frac
		switch part {
		case 1:
			lo, hi = n-n/frac, n
		case 2:
			lo, hi = n/2-n/(2*frac), n/2+n/(2*frac)
		}
		for k := hi - 1; k >= lo; k-- {
			if k%p == 0 {
				t.apply(vEditSubOOV, k, k)
			}
		}
		return vCase{fmt.Sprintf("partnoise:%s:%s every %d over 1/%d", d.Key, []string{"head", "tail", "middle"}[part], p, frac), t.bytes(), d.Key}
	case "truncate":
		d := docs[r.Choose(len(docs), "doc")]
		pct := []int{60, 70, 80, 90}[r.Choose(4, "pct")]
		tail := r.Choose(2, "end")
		t := vParse(d.Bytes)
		n := t.nwords()
		cut := n - n*pct/100
		for x := 0; x < cut; x++ {
			if tail == 1 {
				t.apply(vEditDelete, t.nwords()-1, 0)
			} else {
				t.apply(vEditDelete, 0, 0)
			}
		}
		return vCase{fmt.Sprintf("truncate:%s:%d%%:%d", d.Key, pct, tail), t.bytes(), d.Key}
	case "concat":
		pool := c01PoolDocs()
		a := pool[r.Choose(len(pool), "a")]
		b := pool[r.Choose(len(pool), "b")]
		glue := []string{"\n", "\n" + vOOVBlock(1, 5, 3), " "}[r.Choose(3, "glue")]
		return vCase{fmt.Sprintf("concat:%s+%s:glue%d", a.Key, b.Key, len(glue)), []byte(string(a.Bytes) + glue + string(b.Bytes)), ""}
	case "scenario":
		sc := vScenarioFiles()
		var names []string
		for n := range sc {
			names = append(names, n)
		}
		sort.Strings(names)
		n := names[r.Choose(len(names), "scenario")]
		return vCase{"scenario:" + n, sc[n], ""}
	}
	panic("unknown family " + fam)
}

var vRecaseNames = []string{"url-scheme-capitalised", "urls-upper", "all-upper", "words-capitalised"}

// vRecase changes ASCII letter case only (byte offsets and every non-letter byte stay).
func vRecase(in []byte, kind int) []byte {
	out := append([]byte(nil), in...)
	up := func(i int) {
		if out[i] >= 'a' && out[i] <= 'z' {
			out[i] -= 'a' - 'A'
		}
	}
	isSp := func(b byte) bool { return b == ' ' || b == '\n' || b == '\t' || b == '\r' }
	switch kind {
	case 0, 1:
		for i := 0; i+7 <= len(out); i++ {
			if (i == 0 || !(out[i-1] >= 'a' && out[i-1] <= 'z')) && (bytes.HasPrefix(out[i:], []byte("http://")) || bytes.HasPrefix(out[i:], []byte("https://"))) {
				up(i)
				if kind == 1 {
					for j := i; j < len(out) && !isSp(out[j]); j++ {
						up(j)
					}
				}
			}
		}
	case 2:
		for i := range out {
			up(i)
		}
	case 3:
		for i := range out {
			if i == 0 || isSp(out[i-1]) {
				up(i)
			}
		}
	}
	return out
}

var vWindowVariants = []string{"lf", "crlf", "accented-prose", "typographic"}

const vWindowProse = "F\u00fcr die \u00dcbersetzung gelten \u00e4hnliche Ma\u00dfgaben wie f\u00fcr das \u00d6ffnen gr\u00f6\u00dferer B\u00fccher\n" +
	"\u4e16\u754c und W\u00f6rter mit \u00e4 \u00f6 \u00fc \u00df stehen \u00fcberall, auch \u201ein Anf\u00fchrungszeichen\u201c \u2013 und mit Binde\u2010\nstrichen\n"

// vWindowText builds filler line (pad bytes) + feature text + document.
func vWindowText(doc []byte, variant, pad int) []byte {
	var sb strings.Builder
	sb.WriteString(strings.Repeat("x ", pad/2))
	if pad%2 == 1 {
		sb.WriteByte('x')
	}
	sb.WriteByte('\n')
	body := string(doc)
	switch variant {
	case 1:
		body = strings.ReplaceAll(strings.ReplaceAll(body, "\r\n", "\n"), "\n", "\r\n")
		sb.WriteString("zqaxav zqbxav\r\nzqcxav\r\n")
	case 2:
		for i := 0; i < 6; i++ {
			sb.WriteString(vWindowProse)
		}
	case 3:
		body = strings.NewReplacer("\"", "\u201c", "'", "\u2019", " - ", " \u2014 ", "-", "\u2010").Replace(body)
		sb.WriteString("zqaxav \u201czqbxav\u201d \u2014 zqcxav\n")
	default:
		sb.WriteString("zqaxav zqbxav\nzqcxav\n")
	}
	sb.WriteString(body)
	sb.WriteString("\nzqdxav zqexav\n")
	return []byte(sb.String())
}
