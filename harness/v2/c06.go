//go:build verif && go1.21

package classifier

import (
	"fmt"
	"regexp"
	"sort"
	"strconv"
	"strings"
	"unicode"

	"verifh/vrep"
	"verifh/vx"
)

// C06: notices, list markers, hyphenation and spelling variants are ignored.

func init() {
	vRegister("c06_tokens", c06Tokens)
	vRegister("c06_match", c06Match)
}

var c06Notices = []string{
	"Copyright 2020 Foo Bar",
	"Copyright (c) 2011, Acme Inc.",
	"copyright 1999 by someone",
	"// Copyright 2008 Google Inc. All rights reserved.",
	"(c) Copyright 2012 X",
	"Copyright © 2015 Foo",
	"COPYRIGHT 2001-2005 THE AUTHORS",
	" * Copyright 2017, The Authors.",
	// leads of up to five CHARACTERS that are not five bytes
	"\u7248\u6743\u6240\u6709 Copyright (c) 2020 X",
	"\u0410\u0432\u0442. Copyright 2020 Y",
	// a notice of about a hundred words (a long list of holders on one line)
	"Copyright (c) 1998-2004 " + c06Holders(96),
}

func c06Holders(n int) string {
	var w []string
	for i := 0; i < n; i++ {
		w = append(w, fmt.Sprintf("Holder%c%c,", 'A'+i%26, 'a'+i/26))
	}
	return strings.Join(w, " ")
}

// c06Unwrap joins the lines of every paragraph (blank-line separated) into one line: texts whose
// lines hold hundreds of words.
func c06Unwrap(b []byte) []byte {
	var out []string
	var cur []string
	flush := func() {
		if len(cur) > 0 {
			out = append(out, strings.Join(cur, " "))
			cur = nil
		}
	}
	for _, l := range strings.Split(string(b), "\n") {
		if strings.TrimSpace(l) == "" {
			flush()
			out = append(out, "")
			continue
		}
		cur = append(cur, strings.TrimSpace(l))
	}
	flush()
	return []byte(strings.Join(out, "\n"))
}

// incl. the last days of months of every length and a leap day in both spellings
var c06Dates = []string{"2020-01-02", "1999-dec-31", "2024-02-29", "2000-Feb-29", "2023-04-30", "1970-01-01"}

var c06Markers = []string{"1.", "12.", "a)", "b.", "iv.", "3.1.", "2)", "c:"}

// reference predicates, frozen copies of what the statement calls a list
// marker / notice (NOT calls into the code under test).
var (
	refMarkerRe   = regexp.MustCompile(`^((a|b|c|d|e|f|g|h|i|j|k|l|m|n|o|p|q|r|ii|iii|iv|v|vi|vii|viii|ix|xi|xii|xiii|xiv|xv)[.:)]|[0-9.]*[.:)])$`)
	refAlphaParen = regexp.MustCompile(`^(a|b|c|d|e|f|g|h|i|j|k|l|m|n|o|p|q|r|ii|iii|iv|v|vi|vii|viii|ix|xi|xii|xiii|xiv|xv)\)$`)
	refNoticeRe   = []*regexp.Regexp{
		regexp.MustCompile(`(?i)^(.{1,5})?copyright (\(c\) )?(\[yyyy\]|\d{4})[,.]?.*$`),
		regexp.MustCompile(`(?i)^(.{1,5})?copyright \(c\) \[dates of first publication\].*$`),
		regexp.MustCompile(`(?i)^\d{4}-(\d{2}|[a-z]{3})-\d{2}$`),
	}
)

// lineWords returns the raw words of a line the way the tokenizer delimits
// them (a word starts at a letter, digit, '&' or '(' and runs to whitespace).
func lineWords(l string) []string {
	var out []string
	cur := ""
	for _, r := range l {
		if cur == "" {
			if unicode.IsLetter(r) || unicode.IsDigit(r) || r == '&' || r == '(' {
				cur = string(unicode.ToLower(r))
			}
			continue
		}
		if unicode.IsSpace(r) {
			out = append(out, cur)
			cur = ""
			continue
		}
		cur += string(unicode.ToLower(r))
	}
	if cur != "" {
		out = append(out, cur)
	}
	return out
}

func refIsNoticeLine(l string) bool {
	j := strings.Join(lineWords(l), " ")
	for _, re := range refNoticeRe {
		if re.MatchString(j) {
			return true
		}
	}
	return false
}

func refIsMarker(w string) bool { return refMarkerRe.MatchString(w) }

// c06Edit is one generated transformation of a text.
type c06Edit struct {
	ID         string
	Text       string
	LineMap    []int // old line -> new line (nil: lines were added inside words, compare no lines)
	NoLines    bool  // a word was split: line numbers are not comparable
	NoticeLine int   // new line number of an inserted notice (0: none)
	DateLine   int
	Class      string // known-deviation class this edit falls into by construction ("" none)
	JoinsAbove int    // number of hyphen-ending lines above the inserted notice
	SplitLine  int    // 1-based line that a split edit breaks in two (0: none)
	MarkerWord string // alpha-marker class: the word the kept marker becomes
	RestFields int    // remainder class: number of blank-separated fields after the split word on its line
}

// c06Mechanism reports whether the difference between the word sequences of base and edited
// text is exactly what the recorded finding of e.Class produces (the class key is used only then):
// alpha marker kept as a word = base words plus copies of the marker's word; remainder of a
// continuation line tokenised as a fresh line = one contiguous run of at most RestFields base
// words missing.
func c06Mechanism(base string, e c06Edit) bool {
	wb, we := vWords(vTokenize([]byte(base))), vWords(vTokenize([]byte(e.Text)))
	switch e.Class {
	case "alpha-marker-with-paren":
		i := 0
		for _, w := range we {
			if i < len(wb) && w == wb[i] {
				i++
			} else if w != e.MarkerWord {
				return false
			}
		}
		return i == len(wb) && len(we) > len(wb)
	case "remainder-after-hyphen-join-rebased":
		i := 0
		for i < len(wb) && i < len(we) && wb[i] == we[i] {
			i++
		}
		k := len(wb) - len(we)
		if k < 1 || k > e.RestFields {
			return false
		}
		return strings.Join(wb[i+k:], " ") == strings.Join(we[i:], " ")
	}
	return true
}

// c06NoticeVerdict classifies a missing notice: "drift" when the notice IS reported, but k lines early,
// with 1 <= k <= number of hyphen-ending lines above it (the tokenizer's line counter loses newlines
// consumed by hyphen joins whose continuation word ends its line or is joined again).
func c06NoticeVerdict(e c06Edit, lines []int) string {
	for _, l := range lines {
		if l == e.NoticeLine {
			return "ok"
		}
	}
	for _, l := range lines {
		if l < e.NoticeLine && e.NoticeLine-l <= e.JoinsAbove {
			return "drift"
		}
	}
	return "missing"
}

func insertLine(lines []string, at int, text string) ([]string, []int) {
	out := append([]string(nil), lines[:at]...)
	out = append(out, text)
	out = append(out, lines[at:]...)
	lm := make([]int, len(lines)+2)
	for i := range lines {
		if i < at {
			lm[i+1] = i + 1
		} else {
			lm[i+1] = i + 2
		}
	}
	return out, lm
}

func identityMap(n int) []int {
	lm := make([]int, n+2)
	for i := range lm {
		lm[i] = i
	}
	return lm
}

// c06ChooseEdit lets the explorer choose one edit of text. docFirst/docLast
// are the 0-based first/last line of the planted license copy (-1 if none).
func c06ChooseEdit(r *vx.Run, text string, docFirst, docLast int, kinds []string, positions int) c06Edit {
	lines := strings.Split(text, "\n")
	el := eligibleLines(lines)
	kind := kinds[r.Choose(len(kinds), "kind")]
	pick := func(n int, label string) int {
		// positions evenly spread when the text has more candidates than the bound
		if positions > 0 && n > positions {
			k := r.Choose(positions, label)
			return k * n / positions
		}
		return r.Choose(n, label)
	}
	switch kind {
	case "notice", "date":
		var tmpl string
		if kind == "notice" {
			tmpl = c06Notices[r.Choose(len(c06Notices), "template")]
		} else {
			tmpl = c06Dates[r.Choose(len(c06Dates), "template")]
		}
		// insertion before line `at` (1..len-1: between two lines), never into a join site
		var cands []int
		for at := 1; at < len(lines); at++ {
			if el[at] && el[at-1] {
				cands = append(cands, at)
			}
		}
		if len(cands) == 0 {
			return c06Edit{}
		}
		at := cands[pick(len(cands), "position")]
		nl, lm := insertLine(lines, at, tmpl)
		e := c06Edit{ID: fmt.Sprintf("%s:%q@line%d", kind, tmpl, at), Text: strings.Join(nl, "\n"), LineMap: lm}
		for i := 0; i < at; i++ {
			tr := []rune(strings.TrimRight(lines[i], " \t\r\f\v"))
			if len(tr) > 0 && isHyphen(tr[len(tr)-1]) {
				e.JoinsAbove++
			}
		}
		if kind == "notice" {
			e.NoticeLine = at + 1
			if docFirst >= 0 && at > docFirst && at <= docLast {
				e.Class = "copyright-inside-license-range"
			}
		} else {
			e.DateLine = at + 1
		}
		return e
	case "marker":
		mk := c06Markers[r.Choose(len(c06Markers), "marker")]
		var cands []int
		for i, l := range lines {
			w := lineWords(l)
			if !el[i] || len(w) == 0 || refIsMarker(w[0]) || refIsNoticeLine(l) || refIsNoticeLine(mk+" "+l) {
				continue
			}
			cands = append(cands, i)
		}
		if len(cands) == 0 {
			return c06Edit{}
		}
		mode := r.Choose(2, "one-or-all")
		e := c06Edit{LineMap: identityMap(len(lines))}
		nl := append([]string(nil), lines...)
		if mode == 1 {
			for _, i := range cands {
				nl[i] = mk + " " + nl[i]
			}
			e.ID = fmt.Sprintf("marker:%s@all", mk)
		} else {
			i := cands[pick(len(cands), "position")]
			nl[i] = mk + " " + nl[i]
			e.ID = fmt.Sprintf("marker:%s@line%d", mk, i)
		}
		e.Text = strings.Join(nl, "\n")
		if refAlphaParen.MatchString(mk) {
			e.Class = "alpha-marker-with-paren"
			e.MarkerWord = strings.ToLower(strings.TrimSuffix(mk, ")"))
		}
		return e
	case "split":
		// split a word of >=6 letters that is not the first word of its line
		type cand struct{ line, start, end int }
		var cands []cand
		for i, l := range lines {
			if !el[i] || refIsNoticeLine(l) {
				continue
			}
			idx := 0
			first := true
			for _, f := range strings.Fields(l) {
				p := strings.Index(l[idx:], f) + idx
				idx = p + len(f)
				isWord := len(f) > 0 && (unicode.IsLetter([]rune(f)[0]) || unicode.IsDigit([]rune(f)[0]) || f[0] == '&' || f[0] == '(')
				if !isWord {
					continue
				}
				if first {
					first = false
					continue
				}
				// letters, and hyphens inside the word ("non-exclusive": one of the split points is
				// right behind the word's own hyphen)
				allLetters := true
				for i, r := range f {
					if !(r >= 'a' && r <= 'z' || r >= 'A' && r <= 'Z' || r == '-' && i > 0 && i < len(f)-1 && f[i-1] != '-') {
						allLetters = false
					}
				}
				if allLetters && len(f) >= 6 {
					cands = append(cands, cand{i, p, p + len(f)})
				}
			}
		}
		if len(cands) == 0 {
			return c06Edit{}
		}
		cd := cands[pick(len(cands), "word")]
		sp := 1 + r.Choose(cd.end-cd.start-1, "split-point")
		l := lines[cd.line]
		nl := append([]string(nil), lines[:cd.line]...)
		nl = append(nl, l[:cd.start+sp]+"-", l[cd.start+sp:])
		nl = append(nl, lines[cd.line+1:]...)
		e := c06Edit{ID: fmt.Sprintf("split:line%d:%q@%d", cd.line, l[cd.start:cd.end], sp), Text: strings.Join(nl, "\n"), NoLines: true, SplitLine: cd.line + 1}
		// class: the remainder of the continuation line becomes a fresh line
		rest := lineWords(l[cd.end:])
		if len(rest) > 0 && (refIsMarker(rest[0]) || refIsNoticeLine(l[cd.end:])) {
			e.Class = "remainder-after-hyphen-join-rebased"
			e.RestFields = len(strings.Fields(l[cd.end:]))
		}
		return e
	case "splitnotice":
		// compound edit: the LAST word of a line is split (its remainder stands alone on the next
		// line, so the continuation word is ended by a line break, not a blank) and a notice is put
		// on a line of its own below; the notice must be reported on exactly its line
		type cand struct{ line, start, end int }
		var cands []cand
		for i, l := range lines {
			if !el[i] || refIsNoticeLine(l) {
				continue
			}
			t := strings.TrimRight(l, " \t\r")
			fs := strings.Fields(t)
			if len(fs) < 2 {
				continue
			}
			f := fs[len(fs)-1]
			allLetters := true
			for _, r := range f {
				if !(r >= 'a' && r <= 'z' || r >= 'A' && r <= 'Z') {
					allLetters = false
				}
			}
			if allLetters && len(f) >= 4 && len(t) == len(l) {
				cands = append(cands, cand{i, len(l) - len(f), len(l)})
			}
		}
		if len(cands) == 0 {
			return c06Edit{}
		}
		cd := cands[pick(len(cands), "word")]
		sp := 1 + r.Choose(2, "split-point")
		tmpl := c06Notices[r.Choose(2, "template")]
		gap := r.Choose(3, "lines-below") // notice after 0, 1 or 2 further lines (or at the end)
		l := lines[cd.line]
		nl := append([]string(nil), lines[:cd.line]...)
		nl = append(nl, l[:cd.start+sp]+"-", l[cd.start+sp:])
		nl = append(nl, lines[cd.line+1:]...)
		at := cd.line + 2 + gap
		if at > len(nl) {
			at = len(nl)
		}
		el2 := eligibleLines(nl)
		for at < len(nl) && !(el2[at] && (at == 0 || el2[at-1] || at == cd.line+2)) {
			at++
		}
		nl2, _ := insertLine(nl, at, tmpl)
		lm := make([]int, len(lines)+2) // old line -> new line (the split line maps to its first half)
		for i := range lm {
			n := i
			if i > cd.line+1 {
				n++
			}
			if n-1 >= at {
				n++
			}
			lm[i] = n
		}
		e := c06Edit{LineMap: lm, ID: fmt.Sprintf("splitnotice:line%d:%q@%d+%q@line%d", cd.line, l[cd.start:cd.end], sp, tmpl, at), Text: strings.Join(nl2, "\n"), NoLines: true, NoticeLine: at + 1, SplitLine: cd.line + 1}
		if docFirst >= 0 && at > docFirst+1 && at <= docLast+1 {
			e.Class = "copyright-inside-license-range"
		}
		return e
	case "spelling":
		pairs := c06SpellingPairs()
		p := pairs[r.Choose(len(pairs), "pair")]
		dir := r.Choose(2, "direction")
		from, to := p[0], p[1]
		if dir == 1 {
			from, to = to, from
		}
		changed := false
		nl := make([]string, len(lines))
		for i, l := range lines {
			if !el[i] {
				nl[i] = l
				continue
			}
			fs := strings.Split(l, " ")
			for j, f := range fs {
				lo := strings.ToLower(f)
				letters := strings.Map(func(r rune) rune {
					if unicode.IsLetter(r) {
						return r
					}
					return -1
				}, lo)
				if letters == from && len(lo) > 0 && unicode.IsLetter([]rune(lo)[0]) && strings.Contains(lo, from) && !strings.Contains(f, "\t") {
					k := strings.Index(lo, from)
					fs[j] = f[:k] + to + f[k+len(from):]
					changed = true
				}
			}
			nl[i] = strings.Join(fs, " ")
		}
		if !changed {
			return c06Edit{}
		}
		return c06Edit{ID: fmt.Sprintf("spelling:%s->%s", from, to), Text: strings.Join(nl, "\n"), LineMap: identityMap(len(lines))}
	case "https":
		dir := r.Choose(2, "direction")
		from, to := "http://", "https://"
		if dir == 1 {
			from, to = to, from
		}
		if !strings.Contains(text, from) {
			return c06Edit{}
		}
		nl := make([]string, len(lines))
		for i, l := range lines {
			nl[i] = l
			if el[i] {
				nl[i] = strings.ReplaceAll(l, from, to)
			}
		}
		t := strings.Join(nl, "\n")
		if t == text {
			return c06Edit{}
		}
		return c06Edit{ID: "https:" + from + "->" + to, Text: t, LineMap: identityMap(len(lines))}
	}
	panic("unknown kind " + kind)
}

// c06SpellingPairs: the single-word interchangeable spellings the statement
// lists (frozen copy; multi-word entries are marked TODO in the source and are
// not part of the claim; https is handled by the https kind).
func c06SpellingPairs() [][2]string {
	m := map[string]string{
		"analyse": "analyze", "artefact": "artifact", "authorisation": "authorization", "authorised": "authorized",
		"calibre": "caliber", "cancelled": "canceled", "capitalisations": "capitalizations", "catalogue": "catalog",
		"categorise": "categorize", "centre": "center", "emphasised": "emphasized", "favour": "favor", "favourite": "favorite",
		"fulfil": "fulfill", "fulfilment": "fulfillment", "initialise": "initialize", "judgment": "judgement",
		"labelling": "labeling", "labour": "labor", "licence": "license", "maximise": "maximize", "modelled": "modeled",
		"modelling": "modeling", "offence": "offense", "optimise": "optimize", "organisation": "organization",
		"organise": "organize", "practise": "practice", "programme": "program", "realise": "realize", "recognise": "recognize",
		"signalling": "signaling", "utilisation": "utilization", "whilst": "while", "wilful": "wilfull",
	}
	var out [][2]string
	for k, v := range m {
		out = append(out, [2]string{k, v})
	}
	sort.Slice(out, func(i, j int) bool { return out[i][0] < out[j][0] })
	return out
}

var c06Kinds = []string{"notice", "date", "marker", "split", "spelling", "https", "splitnotice"}

// c06Compare checks an edit against the base result.
func c06Compare(cl *Classifier, base string, r0 Results, e c06Edit) (msg string, onlyNoticeMissing bool) {
	r1 := cl.Match([]byte(e.Text))
	lic := func(res Results, lm []int, noLines bool) []string {
		var out []string
		for _, m := range res.Matches {
			if m.MatchType == "Copyright" {
				continue
			}
			s := fmt.Sprintf("%s/%s/%s conf=%v toks=%d-%d", m.MatchType, m.Name, m.Variant, m.Confidence, m.StartTokenIndex, m.EndTokenIndex)
			if !noLines {
				a, b := m.StartLine, m.EndLine
				if lm != nil {
					a, b = lm[a], lm[b]
				}
				s += fmt.Sprintf(" lines=%d-%d", a, b)
			}
			out = append(out, s)
		}
		sort.Strings(out)
		return out
	}
	want := lic(r0, e.LineMap, e.NoLines)
	got := lic(r1, nil, e.NoLines)
	if strings.Join(want, "\n") != strings.Join(got, "\n") {
		return fmt.Sprintf("license matches changed: original %v, edited %v; first token difference: %s", want, got, c06TokDiff(base, e.Text)), false
	}
	if e.NoticeLine > 0 {
		var ls []int
		for _, m := range r1.Matches {
			if m.MatchType == "Copyright" && m.StartLine == m.EndLine {
				ls = append(ls, m.StartLine)
			}
		}
		switch c06NoticeVerdict(e, ls) {
		case "missing":
			return fmt.Sprintf("inserted notice on line %d is not reported as a Copyright match: %s", e.NoticeLine, vFmt(r1)), true
		case "drift":
			return fmt.Sprintf("DRIFT inserted notice on line %d is reported on an earlier line (%d hyphen joins above): %s", e.NoticeLine, e.JoinsAbove, vFmt(r1)), true
		}
	}
	return "", false
}

func c06TokDiff(a, b string) string {
	ta, tb := vTokenize([]byte(a)), vTokenize([]byte(b))
	for i := 0; i < len(ta) && i < len(tb); i++ {
		if ta[i].Word != tb[i].Word {
			return fmt.Sprintf("word %d: %q vs %q", i, ta[i].Word, tb[i].Word)
		}
	}
	if len(ta) != len(tb) {
		return fmt.Sprintf("%d vs %d words", len(ta), len(tb))
	}
	return "same words"
}

func c06Match(c *vrep.Ctx) {
	t, _ := strconv.ParseFloat(c.Param("t", "0.8"), 64)
	cl := vEmbeddedCached(t)
	docs := vDocPool(c.ParamInt("docs", c.Pick(431, 431)))
	if mb := c.ParamInt("maxbytes", 0); mb > 0 {
		// every-position runs: the n smallest documents of at least 200 bytes up to maxbytes
		var small []vDoc
		for _, d := range vCorpusFiles() {
			if len(d.Bytes) <= mb && len(d.Bytes) >= 200 {
				small = append(small, d)
			}
		}
		if n := c.ParamInt("docs", len(small)); n < len(small) {
			step := len(small) / n
			var pick []vDoc
			for i := 0; i < n; i++ {
				pick = append(pick, small[i*step])
			}
			small = pick
		}
		docs = small
	}
	if c.Param("layout", "") == "unwrap" {
		for i := range docs {
			docs[i].Bytes = c06Unwrap(docs[i].Bytes)
		}
		c.Bound("layout", "every paragraph of the document on ONE line")
	}
	var prefixes []int
	if c.Param("prefix", "") == "distinct" {
		for _, b := range []int{1 << 12, 1 << 14, 1 << 16}[:c.Pick(2, 3)] {
			for _, k := range []int{5, 20, 45} {
				prefixes = append(prefixes, b-k)
			}
		}
		c.Bound("distinct_prefix_words", fmt.Sprint(prefixes))
	}
	crlf := c.Param("eol", "lf") == "crlf"
	if crlf {
		c.Bound("line_ends", "CRLF in the text and in the edit")
	}
	positions := c.ParamInt("positions", c.Pick(3, 12))
	kinds := strings.Split(c.Param("kinds", strings.Join(c06Kinds, ",")), ",")
	c.R.Rule = fmt.Sprintf("Match level: %d documents in OOV context x edit kinds %v (12 notice templates, 6 dates (month ends, a leap day), 8 markers on one/all eligible lines, word splits at every split point, 35 spelling pairs both directions, http<->https) at up to %d evenly spread positions (0 = every position); license matches must be identical (names, variants, confidences, token spans, mapped lines) and every inserted notice reported on its line; non-trivial = distinct (document, edit) cases whose base input has a license match", len(docs), kinds, positions)
	c.Bound("documents", len(docs))
	c.Bound("positions_per_document", positions)
	baseCache := map[string]Results{}
	body := func(r *vx.Run) {
		d := docs[r.Choose(len(docs), "doc")]
		pre := vOOVBlock(2, 5, 0)
		if len(prefixes) > 0 {
			// a long run of pairwise different unrelated words first (lines of 9): the document starts
			// a few words below a power of two of distinct words seen so far
			n := prefixes[r.Choose(len(prefixes), "prefix words")]
			var sb strings.Builder
			for i := 0; i < n; i++ {
				sb.WriteString(vDistinctOOV(i))
				if i%9 == 8 || i == n-1 {
					sb.WriteByte('\n')
				} else {
					sb.WriteByte(' ')
				}
			}
			pre = sb.String()
		}
		base := pre + string(d.Bytes) + "\n" + vOOVBlock(2, 4, 30)
		e := c06ChooseEdit(r, base, -1, -1, kinds, positions)
		if r.Scout() || e.ID == "" {
			r.Note = map[string]interface{}{"none": true}
			return
		}
		if crlf {
			// the same text and the same edit with CRLF line ends throughout
			base = strings.ReplaceAll(base, "\n", "\r\n")
			e.Text = strings.ReplaceAll(e.Text, "\n", "\r\n")
		}
		r0, ok := baseCache[d.Key]
		if !ok {
			r0 = cl.Match([]byte(base))
			baseCache = map[string]Results{d.Key: r0}
		}
		if nLic := func() (n int) {
			for _, m := range r0.Matches {
				if m.MatchType != "Copyright" {
					n++
				}
			}
			return
		}(); nLic == 0 && c.Param("layout", "") != "" {
			// a re-laid-out document that is not recognised any more is not a license-bearing input
			r.Note = map[string]interface{}{"none": true}
			return
		}
		// class "inside the license range", by construction: the notice sits strictly between the
		// first and the last word-bearing line of the planted copy (harness tokenisation, not Match)
		if e.NoticeLine > 0 {
			// from the text alone: the planted copy occupies the lines behind the prefix; its first and
			// last line with anything but white space bound the range (line numbers of the unedited
			// text, mapped through the edit)
			e.Class = ""
			dl := strings.Split(string(d.Bytes), "\n")
			first, last := -1, -1
			for i, l := range dl {
				if strings.TrimSpace(l) != "" {
					if first < 0 {
						first = i
					}
					last = i
				}
			}
			l0 := strings.Count(pre, "\n") + 1
			if first >= 0 && l0+last < len(e.LineMap) {
				if e.NoticeLine > e.LineMap[l0+first] && e.NoticeLine < e.LineMap[l0+last] {
					e.Class = "copyright-inside-license-range"
				}
			}
		}
		msg, onlyNotice := c06Compare(cl, base, r0, e)
		if msg != "" && !c06Mechanism(base, e) {
			e.Class = "" // not the recorded mechanism: reported under its own key
		}
		if onlyNotice && strings.HasPrefix(msg, "DRIFT") {
			e.Class = "line-drift-after-hyphen-join"
		}
		if msg != "" && e.SplitLine > 0 && e.Class == "" && c06BoundaryLineOnly(cl, r0, e) {
			e.Class = "shared-boundary-line-split"
		}
		nm := 0
		for _, m := range r0.Matches {
			if m.MatchType != "Copyright" {
				nm++
			}
		}
		r.Note = map[string]interface{}{"id": d.Key + "|" + e.ID, "msg": msg, "class": e.Class, "onlyNotice": onlyNotice, "nm": nm}
	}
	c.Run(vSplitExplorer(c, 0, 2), body, func(r *vx.Run) {
		if r.Note["none"] != nil {
			c.R.Evaluations--
			return
		}
		id := r.Note["id"].(string)
		if r.Note["nm"].(int) > 0 {
			c.Nontrivial(id)
			c.Sample(map[string]interface{}{"case": id})
		}
		if m := r.Note["msg"].(string); m != "" {
			c.Violate(c06Key(id, r.Note["class"].(string), r.Note["onlyNotice"].(bool)), id+": "+m, r, m)
		} else {
			c.Outcome("same")
		}
	})
}

// c06Key: a violation falls under a class-keyed known deviation only when the
// edit belongs to the class BY CONSTRUCTION (decided from the input alone) and,
// for the Copyright class, the only discrepancy is the missing pseudo-match.
func c06Key(id, class string, onlyNotice bool) string {
	switch class {
	case "copyright-inside-license-range":
		if onlyNotice && !strings.Contains(id, "DRIFT") {
			return "c06:class:" + class
		}
	case "alpha-marker-with-paren", "remainder-after-hyphen-join-rebased", "line-drift-after-hyphen-join", "shared-boundary-line-split":
		return "c06:class:" + class
	}
	return "c06:" + strings.ReplaceAll(id, " ", "_")
}

// c06Tokens: tokenizer level over short texts built from token classes.
func c06Tokens(c *vrep.Ctx) {
	syms := []string{"alpha", "Beta", "licence", "organization", "1.", "a)", "iv.", "2.0", "http://x.y/z", "(c)", "\n", "copyright 2000 x\n", "foobar-\n", "gamma\n", "non-exclusive"}
	maxLen := c.Pick(4, 5)
	c.R.Rule = fmt.Sprintf("tokenizer level: all texts of <=%d symbols over %q (blank separated) x every C06 edit (each notice/date template at each line gap, each marker on one/all eligible lines, every split point of every long word, every applicable spelling pair, http/https); the (word) sequences must be equal, lines mapped, inserted notices produce a Copyright pseudo-match on their line; non-trivial = distinct (text, edit) pairs", maxLen, syms)
	c.Bound("max_symbols", maxLen)
	body := func(r *vx.Run) {
		n := 1 + r.Choose(maxLen, "len")
		var sb strings.Builder
		for i := 0; i < n; i++ {
			s := syms[r.Choose(len(syms), "sym")]
			sb.WriteString(s)
			if !strings.HasSuffix(s, "\n") {
				sb.WriteByte(' ')
			}
		}
		text := sb.String()
		e := c06ChooseEdit(r, text, -1, -1, c06Kinds, 0)
		if r.Scout() || e.ID == "" {
			r.Note = map[string]interface{}{"none": true}
			return
		}
		ta, ma := vTokenizeFull([]byte(text))
		tb, mb := vTokenizeFull([]byte(e.Text))
		msg := ""
		if strings.Join(vWords(ta), " ") != strings.Join(vWords(tb), " ") {
			msg = fmt.Sprintf("words %v vs %v", vWords(ta), vWords(tb))
		} else if !e.NoLines {
			for i := range ta {
				if e.LineMap[ta[i].Line] != tb[i].Line {
					msg = fmt.Sprintf("word %d %q: line %d should map to %d, got %d", i, ta[i].Word, ta[i].Line, e.LineMap[ta[i].Line], tb[i].Line)
					break
				}
			}
		}
		if msg == "" && e.NoticeLine > 0 {
			var ls []int
			for _, m := range mb {
				ls = append(ls, m.StartLine)
			}
			switch c06NoticeVerdict(e, ls) {
			case "missing":
				msg = fmt.Sprintf("inserted notice on line %d produced no Copyright pseudo-match (have %d, base %d)", e.NoticeLine, len(mb), len(ma))
			case "drift":
				msg = fmt.Sprintf("DRIFT inserted notice on line %d is reported on an earlier line (%d hyphen joins above)", e.NoticeLine, e.JoinsAbove)
				e.Class = "line-drift-after-hyphen-join"
			}
		}
		if msg != "" && !c06Mechanism(text, e) {
			e.Class = ""
		}
		r.Note = map[string]interface{}{"id": fmt.Sprintf("%q|%s", text, e.ID), "msg": msg, "class": e.Class}
	}
	c.Run(vSplitExplorer(c, 0, 3), body, func(r *vx.Run) {
		if r.Note["none"] != nil {
			c.R.Evaluations--
			return
		}
		id := r.Note["id"].(string)
		c.Nontrivial(id)
		c.Sample(map[string]interface{}{"case": id})
		if m := r.Note["msg"].(string); m != "" {
			c.Violate(c06Key("tok:"+id, r.Note["class"].(string), false), id+": "+m, r, m)
		}
	})
}

// c06BoundaryLineOnly: the base result retains two license matches A and B only through the
// "ending and start lines exactly overlap" exception of the overlap filter (B.StartLine ==
// A.EndLine), the split breaks exactly that shared line, and the ONLY difference in the edited
// result is that B is gone.
func c06BoundaryLineOnly(cl *Classifier, r0 Results, e c06Edit) bool {
	r1 := cl.Match([]byte(e.Text))
	render := func(m *Match) string {
		return fmt.Sprintf("%s/%s/%s conf=%v toks=%d-%d", m.MatchType, m.Name, m.Variant, m.Confidence, m.StartTokenIndex, m.EndTokenIndex)
	}
	have := map[string]int{}
	for _, m := range r1.Matches {
		if m.MatchType != "Copyright" {
			have[render(m)]++
		}
	}
	var missing []*Match
	for _, m := range r0.Matches {
		if m.MatchType == "Copyright" {
			continue
		}
		if have[render(m)] > 0 {
			have[render(m)]--
		} else {
			missing = append(missing, m)
		}
	}
	for _, n := range have {
		if n > 0 {
			return false // something new appeared
		}
	}
	if len(missing) != 1 {
		return false
	}
	b := missing[0]
	if b.StartLine != e.SplitLine {
		return false
	}
	for _, a := range r0.Matches {
		if a != b && a.MatchType != "Copyright" && a.EndLine == b.StartLine && a.StartLine < b.StartLine {
			return true
		}
	}
	return false
}

// c06History: the spelling / http(s) clause on a classifier with a HISTORY. A document holding
// every canonical spelling (and an http URL); for every pair and direction the text with that
// one word respelled must match exactly like the original - on a fresh classifier, after the
// respelled text went through Normalize on the same classifier, and after a text holding ALL
// variant spellings did (Normalize interns the words it sees in the classifier's dictionary).
func init() { vRegister("c06_history", c06History) }

func c06History(c *vrep.Ctx) {
	pairs := append(c06SpellingPairs(), [2]string{"https://example.org/terms", "http://example.org/terms"})
	var canon, variants []string
	for _, p := range pairs {
		canon = append(canon, p[1])
		variants = append(variants, p[0])
	}
	// the document: the canonical words in sentences of plain words
	var dw []string
	for i, w := range canon {
		dw = append(dw, "the", w, "of", vFillerWord(i), "shall")
	}
	doc := strings.Join(dw, " ")
	allVariants := strings.Join(variants, " and ")
	c.R.Rule = fmt.Sprintf("a document with all %d canonical spellings and an http URL; for every pair and both directions the respelled text must match like the original on {a fresh classifier, the same classifier after Normalize(respelled text), after Normalize(text with all variant spellings), after Match of it}; non-trivial = comparisons", len(pairs))
	mk := func() *Classifier {
		cl := NewClassifier(0.8)
		cl.AddContent("License", "Canon", "license.txt", []byte(doc))
		return cl
	}
	base := []byte("zqaxav\n" + doc + "\nzqbxav\n")
	want := vFmt(mk().Match(base))
	if !strings.Contains(want, "Canon") {
		panic("c06_history is vacuous: the document does not match itself")
	}
	body := func(r *vx.Run) {
		pi := r.Choose(len(pairs), "pair")
		hist := r.Choose(4, "history")
		in := []byte(strings.Replace(string(base), " "+pairs[pi][1]+" ", " "+pairs[pi][0]+" ", 1))
		cl := mk()
		switch hist {
		case 1:
			cl.Normalize(in)
		case 2:
			cl.Normalize([]byte(allVariants))
		case 3:
			cl.Match([]byte(allVariants + " " + string(in)))
		}
		got := vFmt(cl.Match(in))
		msg := ""
		if got != want {
			msg = fmt.Sprintf("respelled text matches as %s, the original as %s", got, want)
		} else if g2 := vFmt(cl.Match(base)); g2 != want {
			msg = fmt.Sprintf("after the history the ORIGINAL text matches as %s, before it as %s", g2, want)
		}
		r.Note = map[string]interface{}{"id": fmt.Sprintf("%s->%s history=%s", pairs[pi][1], pairs[pi][0], []string{"none", "Normalize(respelled)", "Normalize(all variants)", "Match(all variants)"}[hist]), "msg": msg}
	}
	c.Run(c.Explorer(0), body, func(r *vx.Run) {
		id := r.Note["id"].(string)
		c.Nontrivial(id)
		if m := r.Note["msg"].(string); m != "" {
			c.Violate("c06_history:"+strings.ReplaceAll(id, " ", "_"), id+": "+m, r, m)
		}
	})
}
