//go:build verif && go1.21

package backend

import (
	"fmt"
	"io"
	"log"
	"os"
	"path/filepath"
	"sort"
	"strings"
	"testing"

	classifier "github.com/google/licenseclassifier/v2"
	"verifh/vrep"
	"verifh/vsync"
	"verifh/vx"
)

// C19 (first half): the CLI's worker pool under the controlled scheduler.

func TestVerif(t *testing.T) {
	log.SetOutput(io.Discard)
	vrep.Main(t, "github.com/google/licenseclassifier/v2/tools/identify_license/backend", map[string]vrep.Harness{"c19_pool": c19Pool})
}

func mkClassifier() *classifier.Classifier {
	cl := classifier.NewClassifier(0.8)
	cl.AddContent("License", "Alpha", "license.txt", []byte("aa bb cc dd ee ff gg hh"))
	cl.AddContent("Header", "Beta", "header.txt", []byte("kk ll mm nn oo pp"))
	return cl
}

func renderResults(b *ClassifierBackend) []string {
	var out []string
	for _, r := range b.GetResults() {
		if r == nil {
			out = append(out, "<nil entry in the results>")
			continue
		}
		out = append(out, fmt.Sprintf("%s %s/%s/%s conf=%v lines=%d-%d", filepath.Base(r.Filename), r.MatchType, r.Name, r.Variant, r.Confidence, r.StartLine, r.EndLine))
	}
	sort.Strings(out)
	return out
}

func c19Pool(c *vrep.Ctx) {
	nfiles := c.ParamInt("files", 3)
	tasks := c.ParamInt("tasks", 2)
	headers := c.Param("headers", "no") == "yes"
	budget := c.ParamInt("budget", c.Pick(1, 2))
	postYield := c.Param("postyield", "no") == "yes" // scheduling points after operations too
	pol := vsync.Preemption
	if c.Param("policy", "preemption") == "delay" {
		pol = vsync.Delay
	}
	dir, err := os.MkdirTemp("", "verif-c19-")
	if err != nil {
		panic(err)
	}
	defer os.RemoveAll(dir)
	contents := []struct{ name, body string }{
		{"licensed.txt", "zqa zqb\naa bb cc dd ee ff gg hh\nzqc\n"},
		{"missing.txt", ""}, // never created: unreadable
		{"header.txt", "kk ll mm nn oo pp\n"},
		{"plain.txt", "nothing to see here\n"},
	}
	var files []string
	unreadable := 0
	rot := c.ParamInt("rot", 0)          // rotates the menu: which kind of file comes first
	allMissing := c.Param("missing", "") // "all": every file is unreadable; "most": all but the first
	for i := 0; i < nfiles; i++ {
		f := contents[(i+rot)%len(contents)]
		if allMissing == "all" || (allMissing == "most" && i > 0) {
			f = contents[1]
		}
		p := filepath.Join(dir, fmt.Sprintf("%d-%s", i, f.name))
		if f.name != "missing.txt" {
			os.WriteFile(p, []byte(f.body), 0o644)
		} else {
			unreadable++
		}
		files = append(files, p)
	}
	// reference: the library's Match on each file's bytes (what the tool has to report)
	cl := mkClassifier()
	var want []string
	for _, f := range files {
		body, err := os.ReadFile(f)
		if err != nil {
			continue
		}
		for _, m := range cl.Match(body).Matches {
			if !headers && m.MatchType == "Header" {
				continue
			}
			want = append(want, fmt.Sprintf("%s %s/%s/%s conf=%v lines=%d-%d", filepath.Base(f), m.MatchType, m.Name, m.Variant, m.Confidence, m.StartLine, m.EndLine))
		}
	}
	sort.Strings(want)
	if len(want) == 0 && nfiles > 0 && rot == 0 && allMissing == "" {
		panic("c19_pool is vacuous: the licensed file is not matched")
	}
	steps := 0
	vx.Replay(nil, func(r *vx.Run) {
		s := vsync.New(r, pol)
		s.Main(func() { (&ClassifierBackend{classifier: cl}).ClassifyLicenses(tasks, files, headers) })
		steps = s.Steps
	})
	if steps < 8 {
		panic("c19_pool needs the backend instrumentation profile (channels, WaitGroup, go statements as modelled operations)")
	}
	c.R.Rule = "controlled scheduler on the instrumented backend.ClassifyLicenses (channels, WaitGroup, Mutex, go statements are modelled operations): n files (licensed, unreadable, header-only, unlicensed) x numTasks x headers (configuration in bounds_completed); every interleaving of the dispatcher, the workers and the closer goroutine within the stated preemption bound; oracle: no deadlock, no panic (e.g. send on a closed channel), GetResults() at the moment the call returns and after all goroutines finished = the library's per-file Match results, one error per unreadable file, no happens-before race on the results slice; states = explored schedules, transitions = scheduling decisions"
	c.Bound("headers", headers)
	c.Assume("Match is one atomic step for the pool exploration; log output and file reads are real but deterministic")
	c.Bound(c.Param("policy", "preemption")+"_bound", budget)
	c.Bound("files", nfiles)
	c.Bound("points_after_operations", postYield)
	c.Bound("tasks", tasks)
	body := func(r *vx.Run) {
		s := vsync.New(r, pol)
		s.PostYield = postYield
		b := &ClassifierBackend{classifier: cl}
		var errs []error
		var atReturn []string
		s.Main(func() {
			errs = b.ClassifyLicenses(tasks, files, headers)
			// what the caller sees at the moment the call returns (main reads GetResults right away)
			atReturn = renderResults(b)
		})
		msg := ""
		switch {
		case s.Panic != "":
			msg = "panic: " + s.Panic
		case s.Deadlock != "":
			msg = s.Deadlock
		case len(s.Races) > 0:
			msg = s.Races[0].String()
		case s.HorizonHit:
			msg = "step horizon hit (livelock?)"
		default:
			if strings.Join(atReturn, "\n") != strings.Join(want, "\n") {
				msg = fmt.Sprintf("when ClassifyLicenses returned GetResults() held %v, the library's per-file Match results are %v", atReturn, want)
			} else if got := renderResults(b); strings.Join(got, "\n") != strings.Join(want, "\n") {
				msg = fmt.Sprintf("after all goroutines finished GetResults() holds %v, the library's per-file Match results are %v", got, want)
			} else if len(errs) != unreadable {
				msg = fmt.Sprintf("%d errors reported, %d files are unreadable", len(errs), unreadable)
			}
		}
		r.Note = map[string]interface{}{"msg": msg, "steps": s.Steps, "switches": s.Switches, "enabled": s.MaxEnabled, "obs": fmt.Sprintf("%v|%d|%d|%s", renderResults(b), s.Steps, s.Switches, msg)}
	}
	e := c.Explorer(budget)
	e.SplitDepth = c.ParamInt("split", 6)
	c.Run(e, body, func(r *vx.Run) {
		c.R.Transitions += int64(r.Note["steps"].(int))
		if r.Note["enabled"].(int) >= 2 {
			c.R.Nontrivial++
		}
		c.Outcome(fmt.Sprint(r.Note["switches"]))
		if c.R.Evaluations%300 == 1 {
			c.Sample(map[string]interface{}{"schedule_choices": fmt.Sprint(r.Choices), "context_switches": r.Note["switches"], "scheduling_points": r.Note["steps"]})
		}
		if m := r.Note["msg"].(string); m != "" {
			c.Violate("c19_pool:"+strings.SplitN(m, " T", 2)[0], fmt.Sprintf("files=%d tasks=%d schedule %v: %s", nfiles, tasks, r.Choices, m), r, m)
		}
	})
	c.R.States = c.R.Evaluations
}
