//go:build verif && go1.21

package results

import (
	"fmt"
	"os"
	"path/filepath"
	"sort"
	"strings"
	"testing"

	"verifh/vrep"
	"verifh/vx"
)

// C19 (JSON half): with include_text every classification's Text is exactly
// lines StartLine..EndLine of the file - for every configuration of ranges
// (nested, overlapping, identical, sharing a boundary line, any order).

func TestVerif(t *testing.T) {
	vrep.Main(t, "github.com/google/licenseclassifier/v2/tools/identify_license/results", map[string]vrep.Harness{"c19_jsontext": c19JSONText})
}

func c19JSONText(c *vrep.Ctx) {
	nlines := 5
	maxN := c.Pick(3, 4)
	dir, err := os.MkdirTemp("", "verif-c19j-")
	if err != nil {
		panic(err)
	}
	defer os.RemoveAll(dir)
	bodies := []string{"l1\nl2\nl3\nl4\nl5\n", "l1\nl2\nl3\nl4\nl5", "l1\n\nl3\n\nl5\n"}
	var files []string
	for i, b := range bodies {
		p := filepath.Join(dir, fmt.Sprintf("f%d.txt", i))
		os.WriteFile(p, []byte(b), 0o644)
		files = append(files, p)
	}
	type rng struct{ a, b int }
	var ranges []rng
	for a := 1; a <= nlines; a++ {
		for b := a; b <= nlines; b++ {
			ranges = append(ranges, rng{a, b})
		}
	}
	c.R.Rule = fmt.Sprintf("NewJSONResult(includeText) on the real function: ALL ordered lists of 1..%d classifications with line ranges [a,b], 1<=a<=b<=%d (identical, nested, overlapping, boundary-sharing, any order), spread over 1-2 files x 3 file bodies (trailing newline, none, blank lines); every classification's Text must be exactly lines a..b of its file; non-trivial = distinct (file body, range list) cases", maxN, nlines)
	c.Bound("max_classifications", maxN)
	c.Bound("file_lines", nlines)
	lineText := func(body string, a, b int) string {
		ls := strings.Split(strings.TrimSuffix(body, "\n"), "\n")
		var sb strings.Builder
		for i := a; i <= b; i++ {
			sb.WriteString(ls[i-1] + "\n")
		}
		return sb.String()
	}
	body := func(r *vx.Run) {
		bi := r.Choose(len(bodies), "file-body")
		n := 1 + r.Choose(maxN, "n")
		var lts LicenseTypes
		var want []string
		var desc []string
		for i := 0; i < n; i++ {
			rg := ranges[r.Choose(len(ranges), "range")]
			second := r.Choose(2, "other-file") == 1 // some classifications belong to a second file
			f, b := files[bi], bodies[bi]
			if second {
				f, b = files[(bi+1)%len(files)], bodies[(bi+1)%len(bodies)]
			}
			name := fmt.Sprintf("L%d", i)
			lts = append(lts, &LicenseType{Filename: f, Name: name, MatchType: "License", Confidence: 1 - float64(i)/10, StartLine: rg.a, EndLine: rg.b})
			want = append(want, fmt.Sprintf("%s|%s|%d-%d|%q", filepath.Base(f), name, rg.a, rg.b, lineText(b, rg.a, rg.b)))
			desc = append(desc, fmt.Sprintf("%s:%d-%d", filepath.Base(f), rg.a, rg.b))
		}
		if r.Scout() {
			return
		}
		msg := ""
		func() {
			defer func() {
				if x := recover(); x != nil {
					msg = fmt.Sprint("panic: ", x)
				}
			}()
			// main() sorts the results (confidence first, then file name) before building the report
			sort.Sort(lts)
			jr, err := NewJSONResult(lts, true)
			if err != nil {
				msg = "error: " + err.Error()
				return
			}
			var got []string
			seenFile := map[string]bool{}
			for i, fc := range jr {
				if seenFile[fc.Filepath] {
					msg = fmt.Sprintf("file %s is listed more than once in the JSON report (its matches are split over several entries)", filepath.Base(fc.Filepath))
					return
				}
				seenFile[fc.Filepath] = true
				if i > 0 && jr[i-1].Filepath > fc.Filepath {
					msg = "JSON report is not ordered by file path"
					return
				}
			}
			for _, fc := range jr {
				for _, k := range fc.Classifications {
					got = append(got, fmt.Sprintf("%s|%s|%d-%d|%q", filepath.Base(fc.Filepath), k.Name, k.StartLine, k.EndLine, k.Text))
				}
			}
			sort.Strings(got)
			sort.Strings(want)
			if strings.Join(got, "\n") != strings.Join(want, "\n") {
				msg = fmt.Sprintf("JSON classifications %v, expected %v", got, want)
			}
		}()
		r.Note = map[string]interface{}{"id": fmt.Sprintf("body%d %s", bi, strings.Join(desc, ",")), "msg": msg}
	}
	e := c.Explorer(0)
	e.SplitDepth = 3
	c.Run(e, body, func(r *vx.Run) {
		id := r.Note["id"].(string)
		c.R.Nontrivial++
		if c.R.Nontrivial%20000 == 1 {
			c.Sample(id)
		}
		if m := r.Note["msg"].(string); m != "" {
			c.Violate("c19_jsontext:"+strings.ReplaceAll(id, " ", "_"), id+": "+m, r, m)
		}
	})
}
