//go:build verif && go1.21

package classifier

import (
	"bytes"
	"encoding/json"
	"fmt"
	"hash/fnv"
	"math"
	"os"
	"os/exec"
	"reflect"
	"sort"
	"strings"
	"unsafe"

	"verifh/vrep"
	"verifh/vsync"
	"verifh/vx"
)

// C04: Match is a deterministic, side-effect-free function of corpus and input.

func init() {
	vRegister("c04_maporder_small", c04MapOrderSmall)
	vRegister("c04_maporder_corpus", c04MapOrderCorpus)
	vRegister("c04_history", c04History)
	vRegister("c04_config", c04Config)
	vRegister("c04_processes", c04Processes)
	vRegister("c04_child", c04Child)
}

// ---- deep state hash ------------------------------------------------------

type hasher struct {
	h    uint64
	seen map[uintptr]int
}

func (h *hasher) mix(x uint64) {
	h.h ^= x
	h.h *= 1099511628211
}

func (h *hasher) str(s string) {
	f := fnv.New64a()
	f.Write([]byte(s))
	h.mix(f.Sum64())
}

func (h *hasher) walk(v reflect.Value) {
	if !v.IsValid() {
		h.mix(0xdead)
		return
	}
	if v.CanAddr() && !v.CanInterface() {
		v = reflect.NewAt(v.Type(), unsafe.Pointer(v.UnsafeAddr())).Elem()
	}
	h.mix(uint64(v.Kind()))
	switch v.Kind() {
	case reflect.Bool:
		if v.Bool() {
			h.mix(1)
		} else {
			h.mix(2)
		}
	case reflect.Int, reflect.Int8, reflect.Int16, reflect.Int32, reflect.Int64:
		h.mix(uint64(v.Int()))
	case reflect.Uint, reflect.Uint8, reflect.Uint16, reflect.Uint32, reflect.Uint64, reflect.Uintptr:
		h.mix(v.Uint())
	case reflect.Float32, reflect.Float64:
		h.mix(math.Float64bits(v.Float()))
	case reflect.String:
		h.str(v.String())
	case reflect.Ptr:
		if v.IsNil() {
			h.mix(0)
			return
		}
		p := v.Pointer()
		if id, ok := h.seen[p]; ok {
			h.mix(uint64(id) + 77)
			return
		}
		h.seen[p] = len(h.seen)
		h.walk(v.Elem())
	case reflect.Interface:
		if v.IsNil() {
			h.mix(0)
			return
		}
		h.str(v.Elem().Type().String())
		h.walk(v.Elem())
	case reflect.Struct:
		for i := 0; i < v.NumField(); i++ {
			h.str(v.Type().Field(i).Name)
			h.walk(v.Field(i))
		}
	case reflect.Slice:
		if v.IsNil() {
			h.mix(0)
			return
		}
		h.mix(uint64(v.Len()))
		for i := 0; i < v.Len(); i++ {
			h.walk(v.Index(i))
		}
	case reflect.Array:
		for i := 0; i < v.Len(); i++ {
			h.walk(v.Index(i))
		}
	case reflect.Map:
		if v.IsNil() {
			h.mix(0)
			return
		}
		// canonical order: entries sorted by the hash of their key (keys are
		// scalars or strings here), values walked in that order so that the
		// pointer numbering does not depend on Go's map iteration order
		type ent struct {
			kh   uint64
			k, v reflect.Value
		}
		var ents []ent
		it := v.MapRange()
		for it.Next() {
			e := &hasher{h: 14695981039346656037, seen: map[uintptr]int{}}
			e.walk(it.Key())
			ents = append(ents, ent{e.h, it.Key(), it.Value()})
		}
		sort.Slice(ents, func(i, j int) bool { return ents[i].kh < ents[j].kh })
		h.mix(uint64(v.Len()))
		for _, e := range ents {
			h.mix(e.kh)
			h.walk(e.v)
		}
	case reflect.Func, reflect.Chan, reflect.UnsafePointer:
		if v.IsNil() {
			h.mix(0)
		} else {
			h.mix(1)
		}
	}
}

// vStateHash hashes everything reachable from the classifier (every field,
// including ones a future change adds) plus the package-level variables.
func vStateHash(c *Classifier, skipTrace bool) uint64 {
	h := &hasher{h: 14695981039346656037, seen: map[uintptr]int{}}
	cv := reflect.ValueOf(c).Elem()
	for i := 0; i < cv.NumField(); i++ {
		if skipTrace && cv.Type().Field(i).Name == "tc" {
			continue
		}
		h.str(cv.Type().Field(i).Name)
		h.walk(cv.Field(i))
	}
	for _, g := range []interface{}{&traceLicenses, &tracePhases, &unknownWord, &unknownIndex, &eol, &listMarker, &interchangeableWords, &punctuationMappings} {
		h.walk(reflect.ValueOf(g).Elem())
	}
	return h.h
}

// ---- 1. map-iteration order seam ------------------------------------------

func c04Instrumented() bool {
	// the seam is live iff the package was built from vinstr's copies
	used := false
	vx.Replay(nil, func(r *vx.Run) {
		done := vsync.InstallMapSeam(r, nil)
		m := vSmallClassifier(9, 0.8)
		m.Match([]byte("aa bb cc aa bb"))
		used = len(done()) > 0
	})
	return used
}

func c04MapOrderSmall(c *vrep.Ctx) {
	if !c04Instrumented() {
		panic("c04_maporder needs the v2map instrumentation profile")
	}
	maxLen := c.ParamInt("maxlen", c.Pick(5, 7))
	budget := c.ParamInt("deviations", c.Pick(1, 2))
	corp := []int{9, 8, 11, 14, 0, 10}
	ts := []float64{0.8, 0.5}
	type ck struct {
		cl  *Classifier
		tag string
	}
	var cls []ck
	for _, ci := range corp {
		for _, t := range ts {
			cls = append(cls, ck{vSmallClassifier(ci, t), fmt.Sprintf("corpus#%d T=%v", ci, t)})
		}
	}
	c.R.Rule = fmt.Sprintf("map-iteration-order seam on the real v2 code (every `range` over a map goes through the explorer): ALL inputs of <=%d words over {aa,bb,cc,OOV} x %d corpora (identical twins, nested, rotations) x thresholds %v; every combination of iteration orders with <=%d deviating range executions per Match (all n! orders for n<=4 keys, else reversal + rotations); Results must be deep-equal to the canonical-order run, confidences bit-identical, same order; non-trivial = distinct executions with at least one deviating order whose Match returned a match", maxLen, len(corp), ts, budget)
	c.Bound("max_input_words", maxLen)
	c.Bound("deviation_bound", budget)
	ref := map[string]string{}
	body := func(r *vx.Run) {
		words := vChooseWords(r, vSmallAlphabet, 1, maxLen)
		ci := r.Choose(len(cls), "corpus")
		if r.Scout() {
			return
		}
		in := []byte(strings.Join(words, " "))
		cl := cls[ci].cl
		done := vsync.InstallMapSeam(r, nil)
		got := vFmt(cl.Match(in))
		used := done()
		nsites := 0
		for range used {
			nsites++
		}
		r.Note = map[string]interface{}{"in": string(in), "ci": ci, "got": got, "sites": nsites}
	}
	c.Run(vSplitExplorer(c, budget, 3), body, func(r *vx.Run) {
		in, ci, got := r.Note["in"].(string), r.Note["ci"].(int), r.Note["got"].(string)
		k := fmt.Sprintf("%d|%s", ci, in)
		if r.Spent() == 0 {
			ref[k] = got
			return
		}
		want, ok := ref[k]
		if !ok {
			// canonical run of this input belongs to the same subtree and always comes first
			panic("canonical execution missing for " + k)
		}
		if strings.Contains(want, " | ") {
			c.R.Nontrivial++
			c.Sample(map[string]interface{}{"input": in, "corpus": cls[ci].tag, "choices": append([]int(nil), r.Choices...)})
		}
		c.Outcome(got)
		if got != want {
			c.Violate(fmt.Sprintf("c04_maporder_small:%s:%q", cls[ci].tag, in), fmt.Sprintf("%s input %q: canonical map order gives %s, order choices %v give %s", cls[ci].tag, in, want, r.Choices, got), r, got)
		}
	})
}

func c04MapOrderCorpus(c *vrep.Ctx) {
	if !c04Instrumented() {
		panic("c04_maporder needs the v2map instrumentation profile")
	}
	cl := vEmbeddedCached(0.8)
	docs := vDocPool(c.Pick(40, 431))
	budget := c.Pick(1, 2)
	// result-shaping sites only: the commutative counting loop of tokenSimilarity stays in canonical order here
	sites := map[string]bool{}
	vx.Replay(nil, func(r *vx.Run) {
		done := vsync.InstallMapSeam(r, nil)
		cl.Match([]byte(vOOVBlock(1, 3, 0) + string(docs[0].Bytes)))
		for s := range done() {
			if !strings.HasPrefix(s, "frequencies.go") {
				sites[s] = true
			}
		}
	})
	var siteList []string
	for s := range sites {
		siteList = append(siteList, s)
	}
	sort.Strings(siteList)
	c.R.Rule = fmt.Sprintf("embedded corpus: each of %d planted documents x every iteration order offered at the result-shaping map ranges %v (reversal and 15 rotations for big maps, all permutations for <=4 keys), <=%d deviating range executions per Match; Results must equal the canonical-order run exactly; non-trivial = distinct deviating executions", len(docs), siteList, budget)
	c.Bound("documents", len(docs))
	c.Bound("deviation_bound", budget)
	c.Assume("the per-document token counting loop in frequencies.go (commutative sum) is not permuted at corpus scale; it is permuted in c04_maporder_small")
	ref := map[int]string{}
	body := func(r *vx.Run) {
		di := r.Choose(len(docs), "doc")
		if r.Scout() {
			return
		}
		in := []byte(vOOVBlock(1, 3, 0) + string(docs[di].Bytes) + "\n" + vOOVBlock(1, 3, 9))
		done := vsync.InstallMapSeam(r, sites)
		got := vFmt(cl.Match(in))
		done()
		r.Note = map[string]interface{}{"di": di, "got": got}
	}
	c.Run(c.Explorer(budget), body, func(r *vx.Run) {
		di, got := r.Note["di"].(int), r.Note["got"].(string)
		if r.Spent() == 0 {
			ref[di] = got
			return
		}
		c.R.Nontrivial++
		if c.R.Nontrivial%97 == 1 {
			c.Sample(map[string]interface{}{"doc": docs[di].Key, "order_choices": append([]int(nil), r.Choices[1:]...)})
		}
		if got != ref[di] {
			c.Violate("c04_maporder_corpus:"+docs[di].Key, fmt.Sprintf("planted %s: canonical map order gives %s, order choices %v give %s", docs[di].Key, ref[di], r.Choices, got), r, got)
		}
	})
}

// ---- 2. history BFS ---------------------------------------------------------

func c04History(c *vrep.Ctx) {
	depth := c.Pick(3, 4)
	inputs := [][]byte{
		[]byte("zqa aa bb cc aa bb zqb"),                       // exact
		[]byte("zqa aa bb zqx aa bb cc aa bb cc bb zqb"),       // edited / multi
		[]byte("zqa zqb zqc zqd zqe"),                          // OOV only
		[]byte("aa bb cc aa bb\ncopyright 2000 x\ncc bb aa cc bb aa"), // two licenses + notice
	}
	type op struct {
		kind string
		x    int
	}
	var ops []op
	for _, k := range []string{"Match", "MatchFrom", "Normalize"} {
		for x := range inputs {
			ops = append(ops, op{k, x})
		}
	}
	mk := func() *Classifier { return vSmallClassifier(11, 0.8) }
	c.R.Rule = fmt.Sprintf("explicit-state BFS over call histories on one real classifier: operations {Match, MatchFrom, Normalize} x 4 inputs (exact, edited multi-license, OOV-only, two licenses + notice), depth <=%d; state key = deep reflective hash of the classifier and the package variables; from every reachable state every Match(x) must return what it returns from the initial state, Match/MatchFrom must be self-loops on the state key and must not modify the caller's bytes; states are rebuilt by replaying the shortest history on a fresh classifier", depth)
	c.Bound("depth", depth)
	init := mk()
	want := make([]string, len(inputs))
	for i, in := range inputs {
		want[i] = vFmt(init.Match(in))
	}
	apply := func(cl *Classifier, o op) (res string, mutated bool) {
		in := append([]byte(nil), inputs[o.x]...)
		switch o.kind {
		case "Match":
			res = vFmt(cl.Match(in))
		case "MatchFrom":
			r, err := cl.MatchFrom(bytes.NewReader(in))
			res = vFmt(r)
			if err != nil {
				res = "error " + err.Error()
			}
		case "Normalize":
			res = "norm:" + string(cl.Normalize(in))
		}
		return res, !bytes.Equal(in, inputs[o.x])
	}
	check := func(path []int, o op, oi int) (uint64, string) {
		cl := mk()
		for _, pi := range path {
			apply(cl, ops[pi])
		}
		before := vStateHash(cl, false)
		res, mutated := apply(cl, o)
		after := vStateHash(cl, false)
		msg := ""
		if mutated {
			msg = o.kind + " modified the caller's byte slice"
		}
		if o.kind != "Normalize" {
			if res != want[o.x] {
				msg = fmt.Sprintf("%s(input %d) returned %s after this history, %s from the initial state", o.kind, o.x, res, want[o.x])
			}
			if after != before {
				msg = fmt.Sprintf("%s changed the classifier state (hash %x -> %x)", o.kind, before, after)
			}
		}
		return after, msg
	}
	if c.Replay != nil {
		ch := c.Replay.Choices
		_, msg := check(ch[:len(ch)-1], ops[ch[len(ch)-1]], ch[len(ch)-1])
		if msg != "" {
			c.Violate(c.Replay.Key, msg, nil, msg)
		}
		return
	}
	seen := map[uint64][]int{vStateHash(init, false): nil}
	frontier := [][]int{nil}
	for d := 0; d < depth && len(frontier) > 0; d++ {
		var next [][]int
		for _, path := range frontier {
			for oi, o := range ops {
				if c.Shards > 1 && oi%c.Shards != c.Shard {
					// bookkeeping only
					cl := mk()
					for _, pi := range append(append([]int(nil), path...), oi) {
						apply(cl, ops[pi])
					}
					k := vStateHash(cl, false)
					if _, ok := seen[k]; !ok {
						seen[k] = append(append([]int(nil), path...), oi)
						next = append(next, seen[k])
					}
					continue
				}
				c.Eval()
				c.R.Transitions++
				k, msg := check(path, o, oi)
				full := append(append([]int(nil), path...), oi)
				var names []string
				for _, pi := range full {
					names = append(names, fmt.Sprintf("%s(%d)", ops[pi].kind, ops[pi].x))
				}
				c.Nontrivial(fmt.Sprint(full))
				if len(path) >= 2 {
					c.Sample(map[string]interface{}{"history": names})
				}
				if msg != "" {
					c.Violate("c04_history:"+o.kind+":"+strings.SplitN(msg, "(", 2)[0], fmt.Sprintf("history %v: %s", names, msg), nil, msg)
					c.R.Violations[len(c.R.Violations)-1].Replay.Choices = full
				} else {
					c.R.Validated++
				}
				if _, ok := seen[k]; !ok {
					seen[k] = full
					next = append(next, full)
				}
			}
		}
		frontier = next
	}
	if c.Shard == 0 {
		c.R.States = int64(len(seen))
	}
}

// ---- 3. configurations --------------------------------------------------------

type c04Sink struct{ n int }

func c04Config(c *vrep.Ctx) {
	docs := [][]string{
		{"aa", "bb", "cc", "aa", "bb"},
		{"aa", "bb", "cc", "aa", "bb", "cc", "bb"},
		{"cc", "bb", "aa", "cc", "bb", "aa"},
		{"aa", "bb", "cc", "aa", "bb"}, // identical to the first under another name
	}
	extra := [][]string{{"dd", "ee", "ff", "dd", "ee", "gg"}, {"hh", "ii", "hh", "jj", "kk", "hh"}}
	maxLen := c.Pick(5, 6)
	build := func(order []int, nExtra int, extraFirst bool, trace int) *Classifier {
		cl := NewClassifier(0.8)
		add := func() {
			for e := 0; e < nExtra; e++ {
				cl.AddContent("License", fmt.Sprintf("X%d", e), "license.txt", []byte(strings.Join(extra[e], " ")))
			}
		}
		if extraFirst {
			add()
		}
		for _, i := range order {
			cl.AddContent("License", fmt.Sprintf("D%d", i), "license.txt", []byte(strings.Join(docs[i], " ")))
		}
		if !extraFirst {
			add()
		}
		switch trace {
		case 1:
			cl.SetTraceConfiguration(nil)
		case 2:
			cl.SetTraceConfiguration(&TraceConfiguration{})
		case 3:
			sink := &c04Sink{}
			cl.SetTraceConfiguration(&TraceConfiguration{TracePhases: "*", TraceLicenses: "*", Tracer: func(string, ...interface{}) { sink.n++ }})
		case 4:
			sink := &c04Sink{}
			cl.SetTraceConfiguration(&TraceConfiguration{TracePhases: "tokenize,searchset,score,frequency", TraceLicenses: "License/D*,License/X0/license.txt", Tracer: func(string, ...interface{}) { sink.n++ }})
		}
		return cl
	}
	var perms [][]int
	var rec func(cur []int, used int)
	rec = func(cur []int, used int) {
		if len(cur) == 4 {
			perms = append(perms, append([]int(nil), cur...))
			return
		}
		for i := 0; i < 4; i++ {
			if used&(1<<i) == 0 {
				rec(append(cur, i), used|1<<i)
			}
		}
	}
	rec(nil, 0)
	type cfg struct {
		cl  *Classifier
		tag string
	}
	var cfgs []cfg
	for _, p := range perms {
		cfgs = append(cfgs, cfg{build(p, 0, false, 0), fmt.Sprintf("order%v", p)})
	}
	for ne := 1; ne <= 2; ne++ {
		for _, first := range []bool{false, true} {
			cfgs = append(cfgs, cfg{build(perms[0], ne, first, 0), fmt.Sprintf("extra%d first=%v", ne, first)})
			cfgs = append(cfgs, cfg{build(perms[23], ne, first, 0), fmt.Sprintf("reverse extra%d first=%v", ne, first)})
		}
	}
	for tr := 1; tr <= 4; tr++ {
		cfgs = append(cfgs, cfg{build(perms[0], 0, false, tr), fmt.Sprintf("trace%d", tr)})
	}
	cfgs = append(cfgs, cfg{build(perms[0], 0, false, 0), "second instance"})
	ref := build(perms[0], 0, false, 0)
	alphabet := []string{"aa", "bb", "cc", "zqoov", "dd"}
	c.R.Rule = fmt.Sprintf("configurations: ALL inputs of <=%d words over {aa,bb,cc,OOV,dd} matched on %d differently built classifiers for the same 4-document corpus (all 24 insertion orders; supersets with 1-2 unrelated documents added first/last; tracing nil / empty / all phases x all licenses into a sink / selected phases; a second instance): Results must be identical to the reference instance; inputs are compared with a private copy after Match, MatchFrom, Normalize and AddContent; non-trivial = (input, configuration) pairs with a match", maxLen, len(cfgs))
	c.Bound("max_input_words", maxLen)
	c.Bound("configurations", len(cfgs))
	body := func(r *vx.Run) {
		words := vChooseWords(r, alphabet, 1, maxLen)
		if r.Scout() {
			return
		}
		in := []byte(strings.Join(words, " "))
		keep := append([]byte(nil), in...)
		want := vFmt(ref.Match(in))
		var msgs []string
		nm := 0
		for _, cf := range cfgs {
			got := vFmt(cf.cl.Match(in))
			c.R.Evaluations++
			if strings.Contains(got, " | ") {
				nm++
				c.R.Nontrivial++
			}
			if got != want {
				msgs = append(msgs, fmt.Sprintf("%s: %s, reference %s", cf.tag, got, want))
			}
		}
		// caller slices
		ref.MatchFrom(bytes.NewReader(in))
		ref.Normalize(in)
		NewClassifier(0.8).AddContent("a", "b", "c", in)
		if !bytes.Equal(in, keep) {
			msgs = append(msgs, "the caller's byte slice was modified")
		}
		r.Note = map[string]interface{}{"in": string(in), "msgs": msgs, "nm": nm}
	}
	c.Run(vSplitExplorer(c, 0, 3), body, func(r *vx.Run) {
		c.R.Evaluations--
		if r.Note["nm"].(int) > 0 {
			c.Sample(map[string]interface{}{"input": r.Note["in"]})
		}
		for _, m := range r.Note["msgs"].([]string) {
			c.Violate(fmt.Sprintf("c04_config:%q:%s", r.Note["in"], strings.SplitN(m, ":", 2)[0]), fmt.Sprintf("input %q: %s", r.Note["in"], m), r, m)
		}
	})
	// embedded corpus loaded in other walk orders
	files := vCorpusFiles()
	loadOrder := func(rot int, rev bool) *Classifier {
		cl := NewClassifier(0.8)
		n := len(files)
		for i := 0; i < n; i++ {
			j := (i + rot) % n
			if rev {
				j = n - 1 - j
			}
			d := files[j]
			cl.AddContent(d.Category, d.Name, d.Variant, d.Bytes)
		}
		return cl
	}
	if c.Shard == 0 && c.Replay == nil {
		base := vEmbeddedCached(0.8)
		pool := vDocPool(c.Pick(30, 431))
		rots := []int{0, 137}
		if c.Thorough() {
			rots = []int{0, 1, 100, 215, 300, 430}
		}
		for _, rot := range rots {
			for _, rev := range []bool{false, true} {
				if rot == 0 && !rev {
					continue
				}
				if c.Expired() {
					c.R.Exhaustive = false
					break
				}
				other := loadOrder(rot, rev)
				for _, d := range pool {
					in := []byte(vOOVBlock(1, 3, 0) + string(d.Bytes) + "\n" + vOOVBlock(1, 3, 9))
					a, b := vFmt(base.Match(in)), vFmt(other.Match(in))
					c.Eval()
					c.Nontrivial(fmt.Sprintf("load rot%d rev%v %s", rot, rev, d.Key))
					if a != b {
						c.Violate(fmt.Sprintf("c04_config:loadorder:%s", d.Key), fmt.Sprintf("planted %s: corpus loaded in lexical order gives %s, loaded rot=%d rev=%v gives %s", d.Key, a, rot, rev, b), nil, b)
					}
				}
			}
		}
	}
}

// ---- 4. separate processes (different map seeds) --------------------------------

func c04Digest(c *vrep.Ctx) string {
	cl := vEmbedded(0.8)
	pool := vDocPool(c.ParamInt("docs", 40))
	h := fnv.New64a()
	for _, d := range pool {
		in := []byte(vOOVBlock(1, 3, 0) + string(d.Bytes) + "\n" + vOOVBlock(1, 3, 9))
		fmt.Fprintf(h, "%s => %s\n", d.Key, vFmt(cl.Match(in)))
	}
	sc := vScenarioFiles()
	var names []string
	for n := range sc {
		names = append(names, n)
	}
	sort.Strings(names)
	for _, n := range names {
		fmt.Fprintf(h, "%s => %s\n", n, vFmt(cl.Match(sc[n])))
	}
	return fmt.Sprintf("%x", h.Sum64())
}

func c04Child(c *vrep.Ctx) {
	c.Note("digest=" + c04Digest(c))
	c.R.Evaluations = 1
	c.R.Nontrivial = 2
}

func c04Processes(c *vrep.Ctx) {
	n := c.Pick(3, 6)
	docs := c.Pick(40, 200)
	c.R.Rule = fmt.Sprintf("companion (sampling over map seeds, not the deciding step): %d separate processes each build the embedded corpus and match %d planted documents + the scenario files; the digests of all Results must agree", n, docs)
	digests := map[string]int{}
	for i := 0; i < n; i++ {
		out := fmt.Sprintf("%s/c04_child_%d_%d.json", os.TempDir(), os.Getpid(), i)
		cmd := exec.Command(os.Args[0], "-test.run", "^TestVerif$", "-test.timeout", "0")
		cmd.Env = append(os.Environ(), "VERIF_HARNESS=c04_child", "VERIF_OUT="+out, fmt.Sprintf("VERIF_PARAMS=docs=%d", docs), "VERIF_SHARD=0", "VERIF_SHARDS=1", "VERIF_REPLAY=")
		b, err := cmd.CombinedOutput()
		if err != nil {
			panic(fmt.Sprintf("child failed: %v\n%s", err, b))
		}
		rb, _ := os.ReadFile(out)
		os.Remove(out)
		var rep vrep.Report
		json.Unmarshal(rb, &rep)
		for _, nt := range rep.Notes {
			if strings.HasPrefix(nt, "digest=") {
				digests[nt]++
			}
		}
		c.Eval()
	}
	c.R.Nontrivial = int64(n)
	c.Sample(map[string]interface{}{"digests": digests})
	if len(digests) != 1 {
		c.Violate("c04_processes:digest", fmt.Sprintf("separate processes produced different results for the same corpus and inputs: %v", digests), nil, fmt.Sprint(digests))
	}
}
