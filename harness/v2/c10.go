//go:build verif && go1.21

package classifier

import (
	"bytes"
	"encoding/json"
	"fmt"
	"math"
	"os"
	"strings"
	"sync/atomic"
	"testing/iotest"
	"time"

	"verifh/vrep"
	"verifh/vx"
)

// C10: the v2 API is total on arbitrary bytes (no panic, no hang).

func init() {
	vRegister("c10_total", c10Total)
}

var c10Syms = []struct{ name, text string }{
	{"a", "a"}, {"Z", "Z"}, {"1", "1"}, {".", "."}, {"SP", " "}, {"NL", "\n"}, {"-", "-"}, {"&", "&"}, {"(", "("}, {")", ")"},
	{"*", "*"}, {"xff", "\xff"}, {"xe2", "\xe2"}, {"NUL", "\x00"}, {"&amp;", "&amp;"}, {"&#0;", "&#0;"}, {"&#x110000;", "&#x110000;"},
	{"©", "©"}, {"copyright-2000", "copyright 2000"}, {"https", "https"}, {"<", "<"},
	{"LONG", strings.Repeat("a", 70000)}, {"EDGE", strings.Repeat(" ", 1019)}, {"HYSTORM", strings.Repeat("-\n", 500)},
	{"WORDS", "aa bb cc aa bb "}, {"a-NL", "a-\n"},
	// capitals whose lower-case form has a different UTF-8 length (case folding changes byte offsets)
	{"U+0130", "\u0130"}, {"&#304;", "&#304;"}, {"KELVIN", "\u212a"}, {":", ":"}, {"U+1E9E", "\u1e9e"},
}

// thresholds incl. the extremes of the float range next to 0 and 1 (q = T/(1-T) becomes
// astronomically large just below 1)
var c10Thresholds = []float64{0, math.SmallestNonzeroFloat64, 0.01, 0.5, 0.8, 0.999, 1 - 1e-13, math.Nextafter(1, 0), 1}

// c10Trace (job parameter trace=all): every trace phase of every license, to a no-op tracer.
var c10Trace bool

func c10Corpus(shape int, t float64) *Classifier {
	cl := NewClassifier(t)
	if c10Trace {
		cl.SetTraceConfiguration(&TraceConfiguration{TraceLicenses: "*", TracePhases: "*", Tracer: func(string, ...interface{}) {}})
	}
	switch shape {
	case 0: // empty corpus
	case 1:
		cl.AddContent("License", "Empty", "license.txt", nil)
	case 2:
		cl.AddContent("License", "One", "license.txt", []byte("aa bb cc aa bb cc dd ee ff gg aa bb cc dd"))
	case 3:
		cl.AddContent("License", "A", "license.txt", []byte("aa bb cc aa bb"))
		cl.AddContent("License", "B", "license.txt", []byte("a"))
		cl.AddContent("Header", "C", "header.txt", []byte("copyright 2000\n1.\n"))
	case 4:
		return vEmbedded(t)
	}
	return cl
}

var c10ShapeNames = []string{"empty corpus", "one empty document", "one 14-word document", "three documents (5 words, 1 word, no words)", "embedded corpus"}

func c10Total(c *vrep.Ctx) {
	c10Trace = c.Param("trace", "off") == "all"
	shape := c.ParamInt("shape", 2)
	maxLen := c.ParamInt("maxlen", c.Pick(2, 3))
	ts := c10Thresholds
	if shape == 4 {
		ts = []float64{0, 0.8, 1}
	}
	if shape == 3 && c.Param("ts", "six") == "six" {
		ts = []float64{0, 0.5, 0.8, 1 - 1e-13, math.Nextafter(1, 0), 1} // six of the nine (ts=all: all nine)
	}
	if c.Param("ts", "") == "three" {
		ts = []float64{0, 0.8, 1}
	}
	cls := make([]*Classifier, len(ts))
	for i, t := range ts {
		cls[i] = c10Corpus(shape, t)
	}
	apis := []string{"Match", "MatchFrom(1-byte reads)", "Normalize", "AddContent+Match", "Match after Normalize"}
	limit := time.Duration(c.Pick(20, 60)) * time.Second
	c.R.Rule = fmt.Sprintf("ALL strings of <=%d symbols over %d byte/macro symbols (invalid UTF-8, NUL, entities, 70 000-letter word, 1019 blanks, 500 hyphen-newlines, ...) x {Match, MatchFrom with 1-byte reads, Normalize, AddContent-then-Match, Match again after Normalize} x thresholds %v on corpus shape %q; monitor: recover() around every call, watchdog of %v per case; non-trivial = distinct (string, api, threshold) cases", maxLen, len(c10Syms), ts, c10ShapeNames[shape], limit)
	c.Bound("max_symbols", maxLen)
	c.Bound("corpus_shape", c10ShapeNames[shape])

	// watchdog: a case that runs longer than the limit is a hang
	var started atomic.Int64
	var curCase atomic.Value
	curCase.Store("")
	stop := make(chan struct{})
	defer close(stop)
	if c.Replay == nil {
		go func() {
			for {
				select {
				case <-stop:
					return
				case <-time.After(500 * time.Millisecond):
				}
				st := started.Load()
				if st != 0 && time.Since(time.Unix(0, st)) > limit {
					cs := curCase.Load().(string)
					c.Violate("c10:hang:"+cs, fmt.Sprintf("case %s did not return within %v (hang)", cs, limit), nil, "hang")
					c.R.Exhaustive = false
					c.R.Fatal = ""
					// flush the report and stop this worker: the case never returns
					if out := os.Getenv("VERIF_OUT"); out != "" {
						b, _ := json.Marshal(c.R)
						os.WriteFile(out, b, 0o644)
					}
					os.Exit(0)
				}
			}
		}()
	}
	body := func(r *vx.Run) {
		n := r.Choose(maxLen+1, "len")
		var sb strings.Builder
		var names []string
		for i := 0; i < n; i++ {
			s := c10Syms[r.Choose(len(c10Syms), "sym")]
			sb.WriteString(s.text)
			names = append(names, s.name)
		}
		if r.Scout() {
			return
		}
		in := vSpare([]byte(sb.String()))
		keep := append([]byte(nil), in[:cap(in)]...)
		id := strings.Join(names, " ")
		var msgs []string
		for ti, cl := range cls {
			for ai, api := range apis {
				cs := fmt.Sprintf("[%s] %s T=%v", id, api, ts[ti])
				curCase.Store(cs)
				started.Store(time.Now().UnixNano())
				msg := vPanics(func() {
					switch ai {
					case 0:
						cl.Match(in)
					case 1:
						if _, err := cl.MatchFrom(iotest.OneByteReader(bytes.NewReader(in))); err != nil {
							panic("unexpected error " + err.Error())
						}
					case 2:
						cl.Normalize(in)
					case 3:
						if shape == 4 {
							return // never add to the shared embedded classifier
						}
						fresh := c10Corpus(shape, ts[ti])
						fresh.AddContent("License", "Added", "license.txt", in)
						fresh.Match(in)
						fresh.Match([]byte("aa bb cc aa bb"))
						fresh.Match(nil)
					case 4:
						// the words Normalize has just learnt are known to the dictionary, but belong to no document
						cl.Match(in)
					}
				})
				started.Store(0)
				c.R.Evaluations++
				c.R.Nontrivial++
				if msg != "" {
					msgs = append(msgs, fmt.Sprintf("%s T=%v: panic: %s", api, ts[ti], msg))
				}
				if !bytes.Equal(in[:cap(in)], keep) {
					// C04's caller-slice clause, checked here because this harness reaches the rare branches
					msgs = append(msgs, fmt.Sprintf("%s T=%v: panic: the caller's memory (the slice or the spare capacity behind it) was modified", api, ts[ti]))
					copy(in[:cap(in)], keep)
				}
			}
		}
		r.Note = map[string]interface{}{"id": id, "msgs": msgs}
	}
	c.Run(vSplitExplorer(c, 0, 3), body, func(r *vx.Run) {
		c.R.Evaluations--
		id := r.Note["id"].(string)
		if len(r.Choices) > 2 && c.R.Evaluations%5000 < 25 {
			c.Sample(map[string]interface{}{"symbols": id})
		}
		for _, m := range r.Note["msgs"].([]string) {
			// identity of the failing case: the symbol string reduced to its class + api + threshold + panic text
			c.Violate(fmt.Sprintf("c10:%s:[%s]:%s", c10ShapeNames[shape], id, strings.SplitN(m, ": panic", 2)[0]), fmt.Sprintf("corpus %q input [%s]: %s", c10ShapeNames[shape], id, m), r, m)
		}
	})
}

// c10_window: every boundary symbol at every byte offset around the tokenizer's buffer
// boundaries (1020/1024 and their multiples), so that each multi-byte rune, blank, line break,
// hyphen and invalid byte straddles or touches a refill point in every phase.
var c10WinSyms = []struct{ name, text string }{
	{"a", "a"}, {"SP", " "}, {"TAB", "\t"}, {"NL", "\n"}, {"CRLF", "\r\n"}, {"-", "-"}, {"-NL", "-\n"}, {".", "."}, {"1.", "1."},
	{"xff", "\xff"}, {"xe2", "\xe2"}, {"xe2x80", "\xe2\x80"}, {"xf0x9f", "\xf0\x9f"}, {"NUL", "\x00"},
	{"NBSP", "\u00a0"}, {"NEL", "\u0085"}, {"LSEP", "\u2028"}, {"PSEP", "\u2029"}, {"IDEOSP", "\u3000"}, {"OGHAMSP", "\u1680"}, {"ENQUAD", "\u2000"}, {"NNBSP", "\u202f"},
	{"BOM", "\ufeff"}, {"HYPHEN2010", "\u2010"}, {"ENDASH", "\u2013"}, {"EMDASH", "\u2014"}, {"COPYRIGHT-SIGN", "\u00a9"}, {"e-acute", "\u00e9"}, {"CJK", "\u4e16"}, {"EMOJI", "\U0001F600"},
	{"LDQUO", "\u201c"}, {"U+FFFD", "\ufffd"}, {"U+0130", "\u0130"}, {"&amp;", "&amp;"}, {"&#8232;", "&#8232;"}, {"copyright", "copyright 2000 x"}, {"https", "https://a"},
}

func init() { vRegister("c10_window", c10Window) }

func c10Window(c *vrep.Ctx) {
	c10Trace = c.Param("trace", "off") == "all"
	fillers := []struct{ name, unit string }{{"words", "aa bb "}, {"one word", "a"}, {"lines", "aa\n"}, {"blanks", " "}, {"3-byte runes", "\u4e16 "}, {"2-byte runes", "\u00e9"}, {"blank lines", "\n"}}
	ctxs := []string{"a", " ", "-", "\n"}
	follows := []string{"", "b", " bb cc aa bb", "\nbb"}
	var offs []int
	for _, base := range []int{1020, 2040, 3060}[:c.Pick(2, 3)] {
		for d := -9; d <= 6; d++ {
			offs = append(offs, base+d)
		}
	}
	ts := []float64{0.8, 0}
	if !c.Thorough() {
		// quick tier: 5 fillers, 3 context bytes, 3 follow-ups, one threshold
		fillers, ctxs, follows, ts = fillers[:5], ctxs[:3], follows[:3], ts[:1]
	}
	apis := []string{"Match", "MatchFrom(1-byte reads)", "Normalize", "AddContent+Match"}
	cls := make([]*Classifier, len(ts))
	for i, t := range ts {
		cls[i] = c10Corpus(3, t)
	}
	c.R.Rule = fmt.Sprintf("ALL inputs filler[0:p-1] + context byte + symbol + follow-up: %d symbols (blanks and line separators of 1-3 bytes, truncated and complete multi-byte runes, hyphens, entities, notices) x EVERY offset p in base-9..base+6 for base in multiples of the 1020-byte tokenizer window (%d offsets) x %d fillers (words, one long word, lines, blanks, blank lines, 2- and 3-byte runes) x context byte %q x %d follow-ups x {Match, MatchFrom with 1-byte reads, Normalize, AddContent-then-Match} x thresholds %v; monitor: recover() around every call, caller's bytes unchanged; non-trivial = distinct (input, api, threshold) cases", len(c10WinSyms), len(offs), len(fillers), ctxs, len(follows), ts)
	c.Bound("offsets", fmt.Sprint(offs))
	body := func(r *vx.Run) {
		sym := c10WinSyms[r.Choose(len(c10WinSyms), "symbol")]
		p := offs[r.Choose(len(offs), "offset")]
		if r.Scout() {
			return
		}
		fl := fillers[r.Choose(len(fillers), "filler")]
		cx := ctxs[r.Choose(len(ctxs), "context")]
		fo := follows[r.Choose(len(follows), "follow")]
		fill := strings.Repeat(fl.unit, p/len(fl.unit)+1)[:p-1]
		in := vSpare([]byte(fill + cx + sym.text + fo))
		keep := append([]byte(nil), in[:cap(in)]...)
		id := fmt.Sprintf("%s[0:%d]+%q+%s+%q", fl.name, p-1, cx, sym.name, fo)
		var msgs []string
		for ti, cl := range cls {
			for ai, api := range apis {
				msg := vPanics(func() {
					switch ai {
					case 0:
						cl.Match(in)
					case 1:
						if _, err := cl.MatchFrom(iotest.OneByteReader(bytes.NewReader(in))); err != nil {
							panic("unexpected error " + err.Error())
						}
					case 2:
						cl.Normalize(in)
					case 3:
						fresh := c10Corpus(3, ts[ti])
						fresh.AddContent("License", "Added", "license.txt", in)
						fresh.Match(in)
					}
				})
				c.R.Evaluations++
				c.R.Nontrivial++
				if msg != "" {
					msgs = append(msgs, fmt.Sprintf("%s T=%v: panic: %s", api, ts[ti], msg))
				}
				if !bytes.Equal(in[:cap(in)], keep) {
					msgs = append(msgs, fmt.Sprintf("%s T=%v: panic: the caller's memory (the slice or the spare capacity behind it) was modified", api, ts[ti]))
					copy(in[:cap(in)], keep)
				}
			}
		}
		r.Note = map[string]interface{}{"id": id, "msgs": msgs}
	}
	c.Run(vSplitExplorer(c, 0, 2), body, func(r *vx.Run) {
		c.R.Evaluations--
		id := r.Note["id"].(string)
		if c.R.Evaluations%40000 < 8 {
			c.Sample(map[string]interface{}{"input": id})
		}
		for _, m := range r.Note["msgs"].([]string) {
			c.Violate(fmt.Sprintf("c10_window:%s:%s", id, strings.SplitN(m, ": panic", 2)[0]), fmt.Sprintf("input %s: %s", id, m), r, m)
		}
	})
}

// c10_wordsets: inputs that hold (nearly) the whole vocabulary of a corpus document in far fewer
// tokens than the document has - its distinct words once each - through every entry point, on the
// embedded corpus at several thresholds.
func init() { vRegister("c10_wordsets", c10WordSets) }

func c10WordSets(c *vrep.Ctx) {
	ts := []float64{0.5, 0.8, 0.95}
	cls := make([]*Classifier, len(ts))
	for i, t := range ts {
		cls[i] = vEmbeddedCached(t)
	}
	docs := vDocPool(c.Pick(431, 431))
	c.R.Rule = fmt.Sprintf("%d embedded documents x their distinct words once each (first-occurrence order, reversed, first 12 words + vocabulary) x {Match, MatchFrom, Normalize} x thresholds %v on the embedded corpus: no panic, no error, the caller's bytes unchanged; non-trivial = all cases", len(docs), ts)
	c.Bound("documents", len(docs))
	body := func(r *vx.Run) {
		cs := vChooseCorpusCase(r, docs, []string{"wordset"})
		if r.Scout() {
			return
		}
		keep := append([]byte(nil), cs.In...)
		var msgs []string
		for ti, cl := range cls {
			for ai, api := range []string{"Match", "MatchFrom", "Normalize"} {
				msg := vPanics(func() {
					switch ai {
					case 0:
						cl.Match(cs.In)
					case 1:
						if _, err := cl.MatchFrom(bytes.NewReader(cs.In)); err != nil {
							panic("unexpected error " + err.Error())
						}
					case 2:
						NewClassifier(ts[ti]).Normalize(cs.In)
					}
				})
				c.R.Evaluations++
				c.R.Nontrivial++
				if msg != "" {
					msgs = append(msgs, fmt.Sprintf("%s T=%v: panic: %s", api, ts[ti], msg))
				}
			}
		}
		if !bytes.Equal(keep, cs.In) {
			msgs = append(msgs, "the caller's memory (the slice or the spare capacity behind it) was modified")
		}
		r.Note = map[string]interface{}{"id": cs.ID, "msgs": msgs}
	}
	c.Run(vSplitExplorer(c, 0, 2), body, func(r *vx.Run) {
		c.R.Evaluations--
		if ms := r.Note["msgs"].([]string); len(ms) > 0 {
			id := r.Note["id"].(string)
			c.Violate("c10_wordsets:"+strings.ReplaceAll(id, " ", "_"), id+": "+ms[0], r, strings.Join(ms, "\n"))
		}
	})
}

// c10_entities: character references for EVERY code point 0..255 (decimal, hexadecimal, with and
// without the semicolon) and the named references for ASCII punctuation and white space, alone at
// the start of a line, glued behind / in front of a word, and twice in a row, through every entry
// point (what a word is is decided before references are resolved, so a reference can yield text
// that no raw word can be).
func init() { vRegister("c10_entities", c10Entities) }

func c10Entities(c *vrep.Ctx) {
	var refs []string
	for n := 0; n < 256; n++ {
		refs = append(refs, fmt.Sprintf("&#%d;", n), fmt.Sprintf("&#x%x;", n), fmt.Sprintf("&#%d", n))
	}
	for _, n := range []string{"period", "colon", "rpar", "lpar", "comma", "semi", "excl", "quest", "hyphen", "dash", "lowbar", "sol", "bsol", "num", "dollar", "percnt", "ast", "plus", "equals", "lt", "gt", "amp", "quot", "apos", "nbsp", "Tab", "NewLine", "ensp", "emsp", "thinsp", "zwnj", "shy", "copy", "sect", "para", "middot", "hellip", "ldquo", "rdquo", "lsquo", "rsquo", "ndash", "mdash"} {
		refs = append(refs, "&"+n+";", "&"+n)
	}
	ctxs := []struct{ name, pre, post string }{
		{"alone on a line", "aa bb\n", "\ncc aa bb"}, {"first word of a line", "aa bb\n", " cc aa bb"}, {"glued behind a word", "aa bb", " cc"},
		{"glued in front of a word", "aa ", "bb cc"}, {"whole input", "", ""}, {"twice", "aa ", ""}, {"before end of input", "aa bb cc aa bb ", ""},
	}
	apis := []string{"Match", "MatchFrom", "Normalize", "AddContent+Match"}
	ts := []float64{0.8, 0}
	cls := make([]*Classifier, len(ts))
	for i, t := range ts {
		cls[i] = c10Corpus(3, t)
	}
	c.R.Rule = fmt.Sprintf("%d character references (every code point 0..255 in three spellings, %d named ones) x %d places x {Match, MatchFrom, Normalize, AddContent-then-Match} x thresholds %v: no panic, no error, caller's bytes unchanged; non-trivial = all cases", len(refs), 86, len(ctxs), ts)
	c.Bound("references", len(refs))
	body := func(r *vx.Run) {
		ref := refs[r.Choose(len(refs), "reference")]
		cx := ctxs[r.Choose(len(ctxs), "place")]
		if r.Scout() {
			return
		}
		text := cx.pre + ref + cx.post
		if cx.name == "twice" {
			text = cx.pre + ref + " " + ref
		}
		in := vSpare([]byte(text))
		keep := append([]byte(nil), in[:cap(in)]...)
		var msgs []string
		for ti, cl := range cls {
			for ai, api := range apis {
				msg := vPanics(func() {
					switch ai {
					case 0:
						cl.Match(in)
					case 1:
						if _, err := cl.MatchFrom(bytes.NewReader(in)); err != nil {
							panic("unexpected error " + err.Error())
						}
					case 2:
						cl.Normalize(in)
					case 3:
						fresh := c10Corpus(3, ts[ti])
						fresh.AddContent("License", "Added", "license.txt", in)
						fresh.Match(in)
					}
				})
				c.R.Evaluations++
				c.R.Nontrivial++
				if msg != "" {
					msgs = append(msgs, fmt.Sprintf("%s T=%v: panic: %s", api, ts[ti], msg))
				}
			}
		}
		if !bytes.Equal(in[:cap(in)], keep) {
			msgs = append(msgs, "the caller's memory (the slice or the spare capacity behind it) was modified")
		}
		r.Note = map[string]interface{}{"id": fmt.Sprintf("%s %s", ref, cx.name), "msgs": msgs}
	}
	c.Run(vSplitExplorer(c, 0, 1), body, func(r *vx.Run) {
		c.R.Evaluations--
		if ms := r.Note["msgs"].([]string); len(ms) > 0 {
			id := r.Note["id"].(string)
			c.Violate("c10_entities:"+strings.ReplaceAll(id, " ", "_"), id+": "+ms[0], r, strings.Join(ms, "\n"))
		}
	})
}

// c10_runes: EVERY code point U+0000..U+2FFF, the last ones of the BMP and of Unicode, the
// surrogate range as raw bytes, and every single byte 0x80..0xFF, each alone, at the start, in the
// middle and at the end of a word, through every entry point (tables indexed by a character are
// sized by someone's idea of the character's range).
func init() { vRegister("c10_runes", c10Runes) }

func c10Runes(c *vrep.Ctx) {
	var units []string
	for r := rune(0); r < 0x3000; r++ {
		units = append(units, string(r))
	}
	for _, r := range []rune{0xFFFC, 0xFFFD, 0xFFFE, 0xFFFF, 0x10000, 0x1F600, 0xE000, 0xF8FF, 0x10FFFE, 0x10FFFF} {
		units = append(units, string(r))
	}
	for b := 0x80; b <= 0xFF; b++ {
		units = append(units, string([]byte{byte(b)}))
	}
	units = append(units, "\xed\xa0\x80", "\xed\xbf\xbf", "\xf4\x90\x80\x80", "\xc0\x80")
	places := []struct{ name, pre, post string }{{"alone", "aa ", " bb"}, {"start of a word", "aa ", "bc bb"}, {"inside a word", "aa b", "c bb"}, {"end of a word", "aa bc", " bb"}, {"whole input", "", ""}}
	cl := c10Corpus(3, 0.8)
	c.R.Rule = fmt.Sprintf("%d characters (every code point U+0000..U+2FFF, the ends of the planes, private use, every byte 0x80..0xFF alone, encoded surrogates, overlong and beyond-range sequences) x %d places x {Match, MatchFrom, Normalize, AddContent-then-Match}: no panic, no error, the caller's memory unchanged; non-trivial = all cases", len(units), len(places))
	c.Bound("characters", len(units))
	body := func(r *vx.Run) {
		u := units[r.Choose(len(units), "character")]
		pl := places[r.Choose(len(places), "place")]
		in := vSpare([]byte(pl.pre + u + pl.post))
		keep := append([]byte(nil), in[:cap(in)]...)
		var msgs []string
		for ai, api := range []string{"Match", "MatchFrom", "Normalize", "AddContent+Match"} {
			msg := vPanics(func() {
				switch ai {
				case 0:
					cl.Match(in)
				case 1:
					if _, err := cl.MatchFrom(bytes.NewReader(in)); err != nil {
						panic("unexpected error " + err.Error())
					}
				case 2:
					cl.Normalize(in)
				case 3:
					fresh := c10Corpus(2, 0.8)
					fresh.AddContent("License", "Added", "license.txt", in)
					fresh.Match(in)
				}
			})
			c.R.Evaluations++
			c.R.Nontrivial++
			if msg != "" {
				msgs = append(msgs, fmt.Sprintf("%s: panic: %s", api, msg))
			}
		}
		if !bytes.Equal(in[:cap(in)], keep) {
			msgs = append(msgs, "the caller's memory (the slice or the spare capacity behind it) was modified")
		}
		r.Note = map[string]interface{}{"id": fmt.Sprintf("%+q %s", u, pl.name), "msgs": msgs}
	}
	c.Run(vSplitExplorer(c, 0, 1), body, func(r *vx.Run) {
		c.R.Evaluations--
		if ms := r.Note["msgs"].([]string); len(ms) > 0 {
			id := r.Note["id"].(string)
			c.Violate("c10_runes:"+strings.ReplaceAll(id, " ", "_"), id+": "+ms[0], r, strings.Join(ms, "\n"))
		}
	})
}
