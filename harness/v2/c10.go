//go:build verif && go1.21

package classifier

import (
	"bytes"
	"encoding/json"
	"fmt"
	"os"
	"strings"
	"sync/atomic"
	"testing/iotest"
	"time"

	"verifh/vrep"
	"verifh/vx"
)

// C10: the v2 API is total on arbitrary bytes (no panic, no hang).

func init() {
	vRegister("c10_total", c10Total)
}

var c10Syms = []struct{ name, text string }{
	{"a", "a"}, {"Z", "Z"}, {"1", "1"}, {".", "."}, {"SP", " "}, {"NL", "\n"}, {"-", "-"}, {"&", "&"}, {"(", "("}, {")", ")"},
	{"*", "*"}, {"xff", "\xff"}, {"xe2", "\xe2"}, {"NUL", "\x00"}, {"&amp;", "&amp;"}, {"&#0;", "&#0;"}, {"&#x110000;", "&#x110000;"},
	{"©", "©"}, {"copyright-2000", "copyright 2000"}, {"https", "https"}, {"<", "<"},
	{"LONG", strings.Repeat("a", 70000)}, {"EDGE", strings.Repeat(" ", 1019)}, {"HYSTORM", strings.Repeat("-\n", 500)},
	{"WORDS", "aa bb cc aa bb "}, {"a-NL", "a-\n"},
	// capitals whose lower-case form has a different UTF-8 length (case folding changes byte offsets)
	{"U+0130", "\u0130"}, {"&#304;", "&#304;"}, {"KELVIN", "\u212a"}, {":", ":"}, {"U+1E9E", "\u1e9e"},
}

var c10Thresholds = []float64{0, 0.01, 0.5, 0.8, 0.999, 1}

func c10Corpus(shape int, t float64) *Classifier {
	cl := NewClassifier(t)
	switch shape {
	case 0: // empty corpus
	case 1:
		cl.AddContent("License", "Empty", "license.txt", nil)
	case 2:
		cl.AddContent("License", "One", "license.txt", []byte("aa bb cc aa bb cc dd ee ff gg aa bb cc dd"))
	case 3:
		cl.AddContent("License", "A", "license.txt", []byte("aa bb cc aa bb"))
		cl.AddContent("License", "B", "license.txt", []byte("a"))
		cl.AddContent("Header", "C", "header.txt", []byte("copyright 2000\n1.\n"))
	case 4:
		return vEmbedded(t)
	}
	return cl
}

var c10ShapeNames = []string{"empty corpus", "one empty document", "one 14-word document", "three documents (5 words, 1 word, no words)", "embedded corpus"}

func c10Total(c *vrep.Ctx) {
	shape := c.ParamInt("shape", 2)
	maxLen := c.ParamInt("maxlen", c.Pick(2, 3))
	ts := c10Thresholds
	if shape == 4 {
		ts = []float64{0, 0.8, 1}
	}
	cls := make([]*Classifier, len(ts))
	for i, t := range ts {
		cls[i] = c10Corpus(shape, t)
	}
	apis := []string{"Match", "MatchFrom(1-byte reads)", "Normalize", "AddContent+Match"}
	limit := time.Duration(c.Pick(20, 60)) * time.Second
	c.R.Rule = fmt.Sprintf("ALL strings of <=%d symbols over %d byte/macro symbols (invalid UTF-8, NUL, entities, 70 000-letter word, 1019 blanks, 500 hyphen-newlines, ...) x {Match, MatchFrom with 1-byte reads, Normalize, AddContent-then-Match} x thresholds %v on corpus shape %q; monitor: recover() around every call, watchdog of %v per case; non-trivial = distinct (string, api, threshold) cases", maxLen, len(c10Syms), ts, c10ShapeNames[shape], limit)
	c.Bound("max_symbols", maxLen)
	c.Bound("corpus_shape", c10ShapeNames[shape])

	// watchdog: a case that runs longer than the limit is a hang
	var started atomic.Int64
	var curCase atomic.Value
	curCase.Store("")
	stop := make(chan struct{})
	defer close(stop)
	if c.Replay == nil {
		go func() {
			for {
				select {
				case <-stop:
					return
				case <-time.After(500 * time.Millisecond):
				}
				st := started.Load()
				if st != 0 && time.Since(time.Unix(0, st)) > limit {
					cs := curCase.Load().(string)
					c.Violate("c10:hang:"+cs, fmt.Sprintf("case %s did not return within %v (hang)", cs, limit), nil, "hang")
					c.R.Exhaustive = false
					c.R.Fatal = ""
					// flush the report and stop this worker: the case never returns
					if out := os.Getenv("VERIF_OUT"); out != "" {
						b, _ := json.Marshal(c.R)
						os.WriteFile(out, b, 0o644)
					}
					os.Exit(0)
				}
			}
		}()
	}
	body := func(r *vx.Run) {
		n := r.Choose(maxLen+1, "len")
		var sb strings.Builder
		var names []string
		for i := 0; i < n; i++ {
			s := c10Syms[r.Choose(len(c10Syms), "sym")]
			sb.WriteString(s.text)
			names = append(names, s.name)
		}
		if r.Scout() {
			return
		}
		in := []byte(sb.String())
		keep := append([]byte(nil), in...)
		id := strings.Join(names, " ")
		var msgs []string
		for ti, cl := range cls {
			for ai, api := range apis {
				cs := fmt.Sprintf("[%s] %s T=%v", id, api, ts[ti])
				curCase.Store(cs)
				started.Store(time.Now().UnixNano())
				msg := vPanics(func() {
					switch ai {
					case 0:
						cl.Match(in)
					case 1:
						if _, err := cl.MatchFrom(iotest.OneByteReader(bytes.NewReader(in))); err != nil {
							panic("unexpected error " + err.Error())
						}
					case 2:
						cl.Normalize(in)
					case 3:
						if shape == 4 {
							return // never add to the shared embedded classifier
						}
						fresh := c10Corpus(shape, ts[ti])
						fresh.AddContent("License", "Added", "license.txt", in)
						fresh.Match(in)
						fresh.Match([]byte("aa bb cc aa bb"))
						fresh.Match(nil)
					}
				})
				started.Store(0)
				c.R.Evaluations++
				c.R.Nontrivial++
				if msg != "" {
					msgs = append(msgs, fmt.Sprintf("%s T=%v: panic: %s", api, ts[ti], msg))
				}
				if !bytes.Equal(in, keep) {
					// C04's caller-slice clause, checked here because this harness reaches the rare branches
					msgs = append(msgs, fmt.Sprintf("%s T=%v: panic: the caller's byte slice was modified", api, ts[ti]))
					copy(in, keep)
				}
			}
		}
		r.Note = map[string]interface{}{"id": id, "msgs": msgs}
	}
	c.Run(vSplitExplorer(c, 0, 3), body, func(r *vx.Run) {
		c.R.Evaluations--
		id := r.Note["id"].(string)
		if len(r.Choices) > 2 && c.R.Evaluations%5000 < 25 {
			c.Sample(map[string]interface{}{"symbols": id})
		}
		for _, m := range r.Note["msgs"].([]string) {
			// identity of the failing case: the symbol string reduced to its class + api + threshold + panic text
			c.Violate(fmt.Sprintf("c10:%s:[%s]:%s", c10ShapeNames[shape], id, strings.SplitN(m, ": panic", 2)[0]), fmt.Sprintf("corpus %q input [%s]: %s", c10ShapeNames[shape], id, m), r, m)
		}
	})
}
