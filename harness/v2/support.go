//go:build verif && go1.21

package classifier

// White-box support shared by the v2 harnesses (C01-C12). Injected into
// package classifier by go's -overlay; nothing here is compiled without the
// verif tag.

import (
	"bytes"
	"fmt"
	"math"
	"os"
	"path/filepath"
	"sort"
	"strings"
	"sync"
	"testing"

	"verifh/vrep"
	"verifh/vx"
)

var vRegistry = map[string]vrep.Harness{}

func vRegister(name string, h vrep.Harness) { vRegistry[name] = h }

func TestVerif(t *testing.T) {
	vrep.Main(t, "github.com/google/licenseclassifier/v2", vRegistry)
}

// vRepo is the tree under test: /repo, or the scratch copy a developer run points VERIF_REPO at.
func vRepo() string {
	if r := os.Getenv("VERIF_REPO"); r != "" {
		return r
	}
	return "/repo"
}

var vAssets = vRepo() + "/v2/assets"
var vScenarios = vRepo() + "/v2/scenarios"

// vDoc is one file of the embedded corpus.
type vDoc struct {
	Category, Name, Variant string
	Key                     string
	Bytes                   []byte
}

var (
	vCorpusOnce sync.Once
	vCorpusDocs []vDoc
)

// vCorpusFiles lists the embedded corpus in lexical order, the order
// DefaultClassifier (embed.FS walk) adds it.
func vCorpusFiles() []vDoc {
	vCorpusOnce.Do(func() {
		cats, _ := os.ReadDir(vAssets)
		for _, cat := range cats {
			if !cat.IsDir() {
				continue
			}
			names, _ := os.ReadDir(filepath.Join(vAssets, cat.Name()))
			for _, n := range names {
				if !n.IsDir() {
					continue
				}
				vs, _ := os.ReadDir(filepath.Join(vAssets, cat.Name(), n.Name()))
				for _, v := range vs {
					b, err := os.ReadFile(filepath.Join(vAssets, cat.Name(), n.Name(), v.Name()))
					if err != nil {
						panic(err)
					}
					vCorpusDocs = append(vCorpusDocs, vDoc{cat.Name(), n.Name(), v.Name(),
						cat.Name() + "/" + n.Name() + "/" + v.Name(), b})
				}
			}
		}
		if len(vCorpusDocs) < 100 {
			panic(fmt.Sprintf("embedded corpus not found under %s (%d files)", vAssets, len(vCorpusDocs)))
		}
	})
	return vCorpusDocs
}

// vEmbedded builds a classifier holding the embedded corpus via AddContent.
func vEmbedded(threshold float64) *Classifier {
	c := NewClassifier(threshold)
	for _, d := range vCorpusFiles() {
		c.AddContent(d.Category, d.Name, d.Variant, d.Bytes)
	}
	return c
}

var (
	vEmbMu    sync.Mutex
	vEmbCache = map[float64]*Classifier{}
)

// vEmbeddedCached returns a per-process shared classifier for a threshold.
func vEmbeddedCached(threshold float64) *Classifier {
	vEmbMu.Lock()
	defer vEmbMu.Unlock()
	if c, ok := vEmbCache[threshold]; ok {
		return c
	}
	c := vEmbedded(threshold)
	vEmbCache[threshold] = c
	return c
}

// vTok is one word of an input as the tokenizer sees it.
type vTok struct {
	Word string
	Line int
}

// vTokenize tokenises in exactly as Match does (normalize=true) but against a
// private dictionary that learns every word, so that out-of-vocabulary words
// keep their text. It does not touch any classifier.
func vTokenize(in []byte) []vTok {
	d := newDictionary()
	doc, err := tokenizeStream(bytes.NewReader(in), true, d, true)
	if err != nil {
		panic(err)
	}
	out := make([]vTok, len(doc.Tokens))
	for i, t := range doc.Tokens {
		out[i] = vTok{d.getWord(t.ID), int(t.Line)} // conversions keep the harness compiling when a change retypes the field
	}
	return out
}

// vTokenizeFull also returns the Copyright pseudo-matches of the input.
func vTokenizeFull(in []byte) ([]vTok, Matches) {
	d := newDictionary()
	doc, err := tokenizeStream(bytes.NewReader(in), true, d, true)
	if err != nil {
		panic(err)
	}
	out := make([]vTok, len(doc.Tokens))
	for i, t := range doc.Tokens {
		out[i] = vTok{d.getWord(t.ID), int(t.Line)} // conversions keep the harness compiling when a change retypes the field
	}
	return out, doc.Matches
}

func vWords(t []vTok) []string {
	w := make([]string, len(t))
	for i := range t {
		w[i] = t[i].Word
	}
	return w
}

// vDocWords returns the words of a corpus document.
func vDocWords(c *Classifier, key string) []string {
	d, ok := c.docs[key]
	if !ok {
		return nil
	}
	w := make([]string, len(d.Tokens))
	for i, t := range d.Tokens {
		w[i] = c.dict.getWord(t.ID)
	}
	return w
}

func vKeyOf(m *Match) string { return m.MatchType + "/" + m.Name + "/" + m.Variant }

func vDocKeys(c *Classifier) []string {
	var k []string
	for key := range c.docs {
		k = append(k, key)
	}
	sort.Strings(k)
	return k
}

// vOOV returns the i-th out-of-vocabulary word (never a list marker, never in
// any corpus dictionary: checked by vCheckOOV).
func vOOV(i int) string { return fmt.Sprintf("zq%cx%cv", 'a'+rune(i%26), 'a'+rune((i/26)%26)) }

func vCheckOOV(c *Classifier, n int) {
	for i := 0; i < n; i++ {
		if c.dict.getIndex(vOOV(i)) != unknownIndex {
			panic("OOV word is in the dictionary: " + vOOV(i))
		}
	}
}

// vOOVBlock builds lines x perLine out-of-vocabulary words, each line
// terminated by a newline.
func vOOVBlock(lines, perLine, salt int) string {
	var sb strings.Builder
	k := salt
	for l := 0; l < lines; l++ {
		for w := 0; w < perLine; w++ {
			if w > 0 {
				sb.WriteByte(' ')
			}
			sb.WriteString(vOOV(k))
			k++
		}
		sb.WriteByte('\n')
	}
	return sb.String()
}

// vFmt renders results canonically (bit-exact confidences).
func vFmt(r Results) string {
	var sb strings.Builder
	fmt.Fprintf(&sb, "lines=%d", r.TotalInputLines)
	for _, m := range r.Matches {
		fmt.Fprintf(&sb, " | %s", vFmtMatch(m))
	}
	return sb.String()
}

func vFmtMatch(m *Match) string {
	return fmt.Sprintf("%s/%s/%s conf=%v(%x) lines=%d-%d toks=%d-%d", m.MatchType, m.Name, m.Variant,
		m.Confidence, math.Float64bits(m.Confidence), m.StartLine, m.EndLine, m.StartTokenIndex, m.EndTokenIndex)
}

// vLev is the plain word-level Levenshtein distance.
func vLev(a, b []string) int {
	prev := make([]int, len(b)+1)
	cur := make([]int, len(b)+1)
	for j := range prev {
		prev[j] = j
	}
	for i := 1; i <= len(a); i++ {
		cur[0] = i
		for j := 1; j <= len(b); j++ {
			c := prev[j-1]
			if a[i-1] != b[j-1] {
				c++
			}
			if prev[j]+1 < c {
				c = prev[j] + 1
			}
			if cur[j-1]+1 < c {
				c = cur[j-1] + 1
			}
			cur[j] = c
		}
		prev, cur = cur, prev
	}
	return prev[len(b)]
}

// vLevBanded returns the Levenshtein distance if it is <= band, else band+1.
func vLevBanded(a, b []string, band int) int {
	n, m := len(a), len(b)
	if n-m > band || m-n > band {
		return band + 1
	}
	if band >= n+m {
		return vLev(a, b)
	}
	const inf = 1 << 30
	prev := make([]int, m+1)
	cur := make([]int, m+1)
	for j := 0; j <= m; j++ {
		if j <= band {
			prev[j] = j
		} else {
			prev[j] = inf
		}
	}
	for i := 1; i <= n; i++ {
		lo, hi := i-band, i+band
		if lo < 1 {
			lo = 1
		}
		if hi > m {
			hi = m
		}
		for j := range cur {
			cur[j] = inf
		}
		if i <= band {
			cur[0] = i
		}
		for j := lo; j <= hi; j++ {
			c := prev[j-1]
			if a[i-1] != b[j-1] {
				c++
			}
			if prev[j]+1 < c {
				c = prev[j] + 1
			}
			if cur[j-1]+1 < c {
				c = cur[j-1] + 1
			}
			cur[j] = c
		}
		prev, cur = cur, prev
	}
	if prev[m] > band {
		return band + 1
	}
	return prev[m]
}

// vSmallVocab is the small-scope vocabulary; none of its words is a list
// marker, a spelling variant or a number.
var vSmallVocab = []string{"aa", "bb", "cc"}

// vSmallCorpusShapes: documents over the small vocabulary (indices).
var vSmallCorpusShapes = [][][]int{
	{{0, 1, 2, 0, 1}},                        // distinct-ish
	{{0, 0, 0, 0, 0}},                        // fully repetitive
	{{0, 1, 0, 1, 0, 1}},                     // period 2
	{{0, 1, 2, 2, 1, 0}},                     // palindrome
	{{0, 1, 2, 0, 1, 2, 0}},                  // period 3
	{{0, 0, 1, 1, 2, 2, 0, 0}},               // doubled
	{{0, 1, 2, 1, 0, 2, 2, 1}},               // irregular
	{{0, 1, 1, 1, 1, 2}},                     // run inside
	{{0, 1, 2, 0, 1}, {0, 1, 2, 0, 1, 2, 1}}, // nested documents
	{{0, 1, 2, 0, 1}, {0, 1, 2, 0, 1}},       // identical documents, different names
	{{0, 1, 2, 0, 1}, {2, 1, 0, 2, 1, 0}},    // reversed pair
	{{0, 0, 1, 0, 0}, {1, 1, 0, 1, 1}, {2, 0, 2, 1, 2, 0}},
	{{0, 1, 2, 0, 1, 2, 0, 1, 2, 0}},   // long periodic
	{{1, 2, 0, 0, 2, 1, 1, 0, 2}},      // 9 words
	{{0, 1, 2, 0}, {1, 2, 0, 1}},       // rotations
	{{0, 1, 0, 2, 0, 1, 0}, {0, 2, 0}}, // short second doc
}

func vShapeWords(shape []int) []string {
	w := make([]string, len(shape))
	for i, s := range shape {
		w[i] = vSmallVocab[s]
	}
	return w
}

// vSmallClassifier builds corpus number ci at threshold t. Document j is
// License/D<j>/license.txt.
// vSmallFiller > 0: a filler document of that many distinct words is added first, so that the
// vocabulary's token ids start behind it (dictionary-size dependent behaviour, e.g. ids as runes).
var vSmallFiller int

func vFillerWord(i int) string {
	return "f" + string(rune('a'+i%26)) + string(rune('a'+(i/26)%26)) + string(rune('a'+(i/676)%26)) + string(rune('a'+(i/17576)%26)) + "y"
}

// vSmallSettings applies the vocab / dictoffset parameters of a small-scope job (process wide: a
// worker process runs one harness).
func vSmallSettings(vocab string, filler int) {
	if vocab == "accented" {
		// 2- and 3-byte letters: byte length and rune count of a word differ
		vSmallVocab = []string{"\u00e4a", "b\u00e9", "\u4e16c"}
		vSmallAlphabet = []string{vSmallVocab[0], vSmallVocab[1], vSmallVocab[2], "zqoov"}
	}
	vSmallFiller = filler
}

func vSmallSetReplace(on bool) { vSmallReplace = on }

func vSmallClassifier(ci int, t float64) *Classifier {
	c := NewClassifier(t)
	if vSmallFiller > 0 {
		var sb strings.Builder
		for i := 0; i < vSmallFiller; i++ {
			sb.WriteString(vFillerWord(i))
			sb.WriteByte(' ')
		}
		// Normalize interns every word of its input in the classifier's dictionary without adding a
		// document: the dictionary grows, the cost of Match does not
		c.Normalize([]byte(sb.String()))
		if len(c.dict.words) < vSmallFiller {
			panic("filler words were not interned")
		}
	}
	for j, sh := range vSmallCorpusShapes[ci] {
		if vSmallReplace {
			// history: every document is first added with another text under the same category/name/variant
			// and then REPLACED by its real text
			w := vShapeWords(sh)
			decoy := make([]string, 0, len(w)+2)
			for k := len(w) - 1; k >= 0; k-- {
				decoy = append(decoy, w[k])
			}
			decoy = append(decoy, w[0], w[len(w)-1])
			c.AddContent("License", fmt.Sprintf("D%d", j), "license.txt", []byte(strings.Join(decoy, " ")))
		}
		c.AddContent("License", fmt.Sprintf("D%d", j), "license.txt", []byte(strings.Join(vShapeWords(sh), " ")))
	}
	return c
}

// vSmallReplace (job parameter replace=yes): see vSmallClassifier.
var vSmallReplace bool

// vSmallAlphabet is the input alphabet of the small scope: vocabulary + OOV.
var vSmallAlphabet = []string{"aa", "bb", "cc", "zqoov"}

// vChooseWords lets the explorer pick a word string of length min..max over
// alphabet (length first, then symbols; simplest first).
func vChooseWords(r *vx.Run, alphabet []string, min, max int) []string {
	n := min + r.Choose(max-min+1, "len")
	w := make([]string, n)
	for i := range w {
		w[i] = alphabet[r.Choose(len(alphabet), "sym")]
	}
	return w
}

func vCount(hay []string, f func(string) bool) int {
	n := 0
	for _, s := range hay {
		if f(s) {
			n++
		}
	}
	return n
}

// vSplitExplorer shards on subtrees at the given depth.
func vSplitExplorer(c *vrep.Ctx, budget, depth int) *vx.Explorer {
	e := c.Explorer(budget)
	e.SplitDepth = depth
	return e
}

// vPanics runs f and returns a description of its panic, if any.
func vPanics(f func()) (msg string) {
	defer func() {
		if x := recover(); x != nil {
			msg = fmt.Sprint(x)
		}
	}()
	f()
	return ""
}

// vScenarioFiles returns the scenario inputs (body after the EXPECTED header).
func vScenarioFiles() map[string][]byte {
	out := map[string][]byte{}
	ents, _ := os.ReadDir(vScenarios)
	for _, e := range ents {
		b, err := os.ReadFile(filepath.Join(vScenarios, e.Name()))
		if err != nil {
			continue
		}
		if strings.HasSuffix(e.Name(), "md") {
			continue
		}
		// as the repository's readScenario: everything after the EXPECTED: line
		parts := strings.SplitN(string(b), "EXPECTED:", 2)
		if len(parts) != 2 {
			continue
		}
		parts = strings.SplitN(parts[1], "\n", 2)
		if len(parts) == 2 {
			out[e.Name()] = []byte(parts[1])
		}
	}
	return out
}

// vSpare returns b as a slice with 16 bytes of spare CAPACITY behind it, filled with 0xEE: memory
// that belongs to the caller just like the bytes of the slice (the next member of an archive, the
// rest of a mapped file). Harnesses compare in[:cap(in)] before and after a call.
func vSpare(b []byte) []byte {
	buf := make([]byte, len(b)+16)
	copy(buf, b)
	for i := len(b); i < len(buf); i++ {
		buf[i] = 0xEE
	}
	return buf[:len(b):len(buf)]
}
