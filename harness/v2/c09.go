//go:build verif && go1.21

package classifier

import (
	"bytes"
	"fmt"
	"reflect"
	"runtime/debug"
	"sort"
	"strings"
	"sync"
	"syscall"
	"unsafe"

	"verifh/vrep"
	"verifh/vsync"
	"verifh/vx"
)

// C09: one classifier can be matched against from many goroutines at once.

func init() {
	vRegister("c09_frozen", c09Frozen)
	vRegister("c09_sched", c09Sched)
	vRegister("c09_race", c09Race)
}

// ---- frozen corpus memory ---------------------------------------------------

type frozenRegion struct {
	lo, hi uintptr
	what   string
}

var frozenRegions []frozenRegion

// freezeSlice moves a pointer-free slice into its own read-only pages,
// keeping len and cap (cap = len of the moved array).
func freezeBytes(n int) []byte {
	page := syscall.Getpagesize()
	size := (n + page - 1) / page * page
	if size == 0 {
		size = page
	}
	b, err := syscall.Mmap(-1, 0, size, syscall.PROT_READ|syscall.PROT_WRITE, syscall.MAP_ANON|syscall.MAP_PRIVATE)
	if err != nil {
		panic(err)
	}
	return b
}

func protect(b []byte, what string) {
	if err := syscall.Mprotect(b, syscall.PROT_READ); err != nil {
		panic(err)
	}
	lo := uintptr(unsafe.Pointer(&b[0]))
	frozenRegions = append(frozenRegions, frozenRegion{lo, lo + uintptr(len(b)), what})
}

func pointerFree(t reflect.Type) bool {
	switch t.Kind() {
	case reflect.Bool, reflect.Int, reflect.Int8, reflect.Int16, reflect.Int32, reflect.Int64,
		reflect.Uint, reflect.Uint8, reflect.Uint16, reflect.Uint32, reflect.Uint64, reflect.Uintptr, reflect.Float32, reflect.Float64:
		return true
	case reflect.Array:
		return pointerFree(t.Elem())
	case reflect.Struct:
		for i := 0; i < t.NumField(); i++ {
			if !pointerFree(t.Field(i).Type) {
				return false
			}
		}
		return true
	}
	return false
}

// freezeWalk moves EVERY pointer-free slice reachable from v through struct fields and pointers
// (not through maps or interfaces) into read-only pages, keeping len and cap. It is generic on
// purpose: an array that a change adds to a corpus document is frozen too. Slices that share a
// backing array are frozen once (aliases are re-pointed to the same frozen copy).
func freezeWalk(v reflect.Value, what string, seen map[uintptr]bool, moved map[uintptr]unsafe.Pointer) int {
	if !v.IsValid() {
		return 0
	}
	if v.CanAddr() && !v.CanSet() {
		v = reflect.NewAt(v.Type(), unsafe.Pointer(v.UnsafeAddr())).Elem()
	}
	n := 0
	switch v.Kind() {
	case reflect.Ptr:
		if v.IsNil() || seen[v.Pointer()] {
			return 0
		}
		seen[v.Pointer()] = true
		if v.Elem().Kind() == reflect.Struct && v.Elem().Type().PkgPath() == reflect.TypeOf(indexedDocument{}).PkgPath() {
			if v.Elem().Type().Name() == "dictionary" {
				return 0 // the shared dictionary is maps only; watched by the state hash
			}
			n += freezeWalk(v.Elem(), what, seen, moved)
		}
	case reflect.Struct:
		for i := 0; i < v.NumField(); i++ {
			n += freezeWalk(v.Field(i), what+"."+v.Type().Field(i).Name, seen, moved)
		}
	case reflect.Slice:
		if v.IsNil() || v.Cap() == 0 {
			return 0
		}
		et := v.Type().Elem()
		if pointerFree(et) {
			base := v.Pointer()
			sz := int(et.Size())
			if sz == 0 {
				return 0
			}
			dst, ok := moved[base]
			if !ok {
				bytes := freezeBytes(v.Cap() * sz)
				src := unsafe.Slice((*byte)(unsafe.Pointer(base)), v.Cap()*sz)
				copy(bytes, src)
				protect(bytes, what)
				dst = unsafe.Pointer(&bytes[0])
				moved[base] = dst
				n++
			}
			hdr := (*[3]uintptr)(unsafe.Pointer(v.UnsafeAddr()))
			hdr[0] = uintptr(dst)
			return n
		}
		if et.Kind() == reflect.Ptr || et.Kind() == reflect.Struct {
			for i := 0; i < v.Len(); i++ {
				n += freezeWalk(v.Index(i), fmt.Sprintf("%s[%d]", what, i), seen, moved)
			}
		}
	}
	return n
}

// vFreeze moves every pointer-free array of the corpus into read-only memory:
// any store into it - even of an identical value - faults.
func vFreeze(c *Classifier) int {
	n := 0
	seen := map[uintptr]bool{}
	moved := map[uintptr]unsafe.Pointer{}
	for _, k := range vDocKeys(c) {
		n += freezeWalk(reflect.ValueOf(c.docs[k]), k, seen, moved)
	}
	return n
}

func faultWhere(addr uintptr) string {
	for _, r := range frozenRegions {
		if addr >= r.lo && addr < r.hi {
			return r.what
		}
	}
	return fmt.Sprintf("unknown address %#x", addr)
}

// guardedMatch runs Match and converts a write fault into a message.
func guardedMatch(cl *Classifier, in []byte) (res Results, fault string) {
	old := debug.SetPanicOnFault(true)
	defer debug.SetPanicOnFault(old)
	defer func() {
		if x := recover(); x != nil {
			type addrer interface{ Addr() uintptr }
			if a, ok := x.(addrer); ok {
				fault = fmt.Sprintf("store into shared corpus memory (%s) during Match: %v\n%s", faultWhere(a.Addr()), x, shortStack())
				return
			}
			fault = fmt.Sprintf("panic: %v", x)
		}
	}()
	res = cl.Match(in)
	return
}

func shortStack() string {
	st := string(debug.Stack())
	var keep []string
	for _, l := range strings.Split(st, "\n") {
		if strings.Contains(l, "licenseclassifier") || strings.Contains(l, "go-diff") {
			keep = append(keep, strings.TrimSpace(l))
		}
		if len(keep) > 12 {
			break
		}
	}
	return strings.Join(keep, " <- ")
}

func c09Frozen(c *vrep.Ctx) {
	mode := c.Param("mode", "small")
	c.Assume("the memory-model half of C09 is decided by footprint: Match contains no synchronisation, so concurrent calls are race-free iff no call stores into memory another call can reach; stores into the corpus's pointer-free arrays fault (mprotect), stores into maps/dictionary are caught by the deep state hash when they change a value")
	if mode == "small" {
		maxLen := c.Pick(5, 7)
		corp := []int{8, 9, 11, 14}
		var cls []*Classifier
		var before []uint64
		for _, ci := range corp {
			for _, t := range []float64{0.5, 0.8} {
				cl := vSmallClassifier(ci, t)
				vFreeze(cl)
				cls = append(cls, cl)
				before = append(before, vStateHash(cl, false))
			}
		}
		c.R.Rule = fmt.Sprintf("shared footprint is read-only, small scope: ALL inputs of <=%d words over {aa,bb,cc,OOV} in three layouts (one line; the first word broken over a line end by a hyphen; one word per line) on %d frozen classifiers (every pointer-free corpus array mprotect-ed read-only): no store into corpus memory, deep state hash unchanged after every call; non-trivial = calls that scored at least one candidate (returned a match)", maxLen, len(cls))
		c.Bound("max_input_words", maxLen)
		body := func(r *vx.Run) {
			words := vChooseWords(r, vSmallAlphabet, 0, maxLen)
			layout := r.Choose(3, "layout")
			if r.Scout() {
				return
			}
			in := []byte(strings.Join(words, " "))
			switch {
			case layout == 1 && len(words) >= 2:
				// the first word is broken over a line end by a hyphen
				in = []byte(words[0] + "-\n" + strings.Join(words[1:], " "))
			case layout == 2:
				in = []byte(strings.Join(words, "\n") + "\n")
			}
			var msgs []string
			for i, cl := range cls {
				res, fault := guardedMatch(cl, in)
				c.R.Evaluations++
				if len(res.Matches) > 0 {
					c.R.Nontrivial++
				}
				if fault != "" {
					msgs = append(msgs, fmt.Sprintf("classifier %d: %s", i, fault))
				} else if h := vStateHash(cl, false); h != before[i] && !vPkgSynchronises {
					// (code that locks may keep guarded state; the scheduler jobs judge it)
					msgs = append(msgs, fmt.Sprintf("classifier %d: Match changed the classifier state", i))
					before[i] = h
				}
			}
			r.Note = map[string]interface{}{"in": string(in), "msgs": msgs}
		}
		c.Run(vSplitExplorer(c, 0, 3), body, func(r *vx.Run) {
			c.R.Evaluations--
			if c.R.Evaluations%4000 < 8 {
				c.Sample(map[string]interface{}{"input": r.Note["in"]})
			}
			for _, m := range r.Note["msgs"].([]string) {
				c.Violate("c09_frozen:"+c09FaultKey(m), fmt.Sprintf("input %q: %s", r.Note["in"], m), r, m)
			}
		})
		return
	}
	// corpus scale
	cl := vEmbedded(0.8)
	n := vFreeze(cl)
	docs := vDocPool(c.Pick(60, 431))
	fams := []string{"exact", "edit1", "periodic", "truncate"}
	c.R.Rule = fmt.Sprintf("shared footprint is read-only, corpus scale: embedded corpus with the arrays of all %d documents frozen; %d documents x edit families %v; no store into corpus memory; non-trivial = distinct inputs with a license match", n, len(docs), fams)
	c.Bound("documents", len(docs))
	body := func(r *vx.Run) {
		cs := vChooseCorpusCase(r, docs, fams)
		if r.Scout() {
			return
		}
		res, fault := guardedMatch(cl, cs.In)
		r.Note = map[string]interface{}{"id": cs.ID, "fault": fault, "nm": len(res.Matches)}
	}
	c.Run(vSplitExplorer(c, 0, 2), body, func(r *vx.Run) {
		id := r.Note["id"].(string)
		if r.Note["nm"].(int) > 0 {
			c.Nontrivial(id)
			c.Sample(id)
		}
		if f := r.Note["fault"].(string); f != "" {
			c.Violate("c09_frozen:"+c09FaultKey(f), id+": "+f, r, f)
		}
	})
}

// c09FaultKey: a write fault is identified by its call chain (function names).
func c09FaultKey(m string) string {
	if strings.Contains(m, "store into shared corpus memory") {
		var fns []string
		for _, part := range strings.Split(m, " <- ") {
			i := strings.Index(part, "(0x")
			for _, pat := range []string{"({", "()", "(...)"} {
				if j := strings.Index(part, pat); j >= 0 && (i < 0 || j < i) {
					i = j
				}
			}
			if i <= 0 || strings.HasPrefix(part, "/") {
				continue
			}
			f := part[:i]
			if k := strings.LastIndex(f, "/"); k >= 0 {
				f = f[k+1:]
			}
			if strings.Contains(f, "guardedMatch") || strings.Contains(f, "shortStack") || strings.Contains(f, "c09") || strings.Contains(f, "store into") {
				continue
			}
			fns = append(fns, f)
			if len(fns) == 3 {
				break
			}
		}
		return "write-fault:" + strings.Join(fns, "<-")
	}
	return strings.SplitN(m, "\n", 2)[0]
}

// ---- controlled schedules -----------------------------------------------------

var c09BigDocCache []byte

func c09BigDoc() []byte {
	if c09BigDocCache == nil {
		var sb strings.Builder
		for i := 0; i < 4300; i++ {
			fmt.Fprintf(&sb, "w%c%c%c ", 'a'+i%26, 'a'+(i/26)%26, 'a'+(i/676)%26)
			if i%11 == 10 {
				sb.WriteByte('\n')
			}
		}
		c09BigDocCache = []byte(sb.String())
	}
	return c09BigDocCache
}

func c09Sched(c *vrep.Ctx) {
	nthreads := c.ParamInt("threads", 2)
	budget := c.ParamInt("budget", c.Pick(2, 2))
	pol := vsync.Delay
	if c.Param("policy", "delay") == "preemption" {
		pol = vsync.Preemption
	}
	scen := c.ParamInt("scenario", 0)
	// corpus: two documents sharing most words (both calls score the same document) + a third
	mk := func() *Classifier {
		cl := NewClassifier(0.7)
		cl.AddContent("License", "A", "license.txt", []byte("aa bb cc dd ee ff gg hh"))
		cl.AddContent("License", "B", "license.txt", []byte("aa bb cc dd ee ff gg ii jj"))
		cl.AddContent("Header", "C", "header.txt", []byte("kk ll mm nn oo"))
		if scen >= 8 {
			// a document with fewer tokens than the classifier's q: indexed with a q of its own
			cl.AddContent("Supplement", "D", "preface.txt", []byte("pp"))
		}
		if scen >= 13 {
			// a document of 4 300 words (twice the size of what the library may treat as a big comparison)
			cl.AddContent("License", "G", "license.txt", c09BigDoc())
		}
		switch c.Param("trace", "off") {
		case "wildcard":
			// a trace configuration with wildcard license patterns and no phase: nothing is emitted, but
			// every trace predicate is evaluated against it on every call
			cl.SetTraceConfiguration(&TraceConfiguration{TraceLicenses: "License/A*,Header/*", Tracer: func(string, ...interface{}) {}})
		case "all":
			cl.SetTraceConfiguration(&TraceConfiguration{TraceLicenses: "*", TracePhases: "*", Tracer: func(string, ...interface{}) {}})
		}
		return cl
	}
	inputs := [][]byte{
		[]byte("zqa aa bb cc dd ee ff gg hh zqb"),               // exact A, near B
		[]byte("aa bb cc dd zqx ff gg ii jj\ncopyright 2000 x"), // edited B + notice
		[]byte("zqa zqb zqc"),                                   // OOV only
		[]byte("kk ll mm nn oo aa bb cc dd ee ff gg hh"),        // two documents
		[]byte("aa bb cc dd ee ff gg hh"),                       // bare copy of A: no longer than the documents
		[]byte("aa bb cc dd ee ff gg ii"),                       // bare near-copy of B
		[]byte("pp aa bb cc dd ee ff gg hh"),                    // the shorter-than-q document followed by A
		[]byte("pp"),                                            // the shorter-than-q document alone
	}
	// inputs 8 and 9: the same 5 KB of unrelated words, then DIFFERENT documents, equal byte length
	// (anything keyed by a prefix, a length or a cheap digest of the input cannot tell them apart)
	head := strings.Repeat("zqhead zqfill ", 360)
	inputs = append(inputs, []byte(head+"aa bb cc dd ee ff gg hh"), []byte(head+"kk ll mm nn oo zqpadxxx"))
	// input 10: the big document itself; input 11: the same with a word changed in the middle
	inputs = append(inputs, c09BigDoc(), []byte(strings.Replace(string(c09BigDoc()), " wcbb ", " zqchanged ", 1)))
	// inputs 12 and 13: words with letters and quotes outside ASCII (U+2019 and U+0419 agree in their
	// low byte, as do U+201C and U+041C): per-character tables shared between calls see them
	inputs = append(inputs, []byte("zqa aa bb cc dd ee ff gg hh the licensor\u2019s \u201cwork\u201d \u00e9t\u00e9 zqb"), []byte("\u0419\u043e\u0434 \u041c\u0438\u0440 \u03b1\u03b2\u03b3 aa bb cc dd ee ff gg ii jj \u0419\u041c"))
	if len(inputs[8]) != len(inputs[9]) || len(head) < 4200 {
		panic("c09: the twin inputs must have equal length and a common head of more than 4 KB")
	}
	// scenario: which inputs the threads use (forced collisions first)
	scens := [][]int{{0, 0}, {0, 1}, {1, 3}, {3, 2}, {0, 1, 3}, {1, 1, 0}, {4, 4}, {4, 5}, {6, 0}, {6, 6}, {7, 4}, {8, 9}, {9, 8, 8}, {10, 11}, {10, 10}, {12, 13}, {13, 12, 12}}
	pick := scens[scen%len(scens)]
	if nthreads < len(pick) {
		pick = pick[:nthreads]
	}
	for len(pick) < nthreads {
		pick = append(pick, pick[len(pick)-1])
	}
	solo := mk()
	want := make([]string, len(inputs))
	for i, in := range inputs {
		want[i] = vFmt(solo.Match(in))
	}
	c.R.Rule = "controlled scheduler on vinstr-instrumented v2 code (yield points at function entries, loop heads and around every call into go-diff): 2-3 threads each calling Match/MatchFrom on ONE shared, cold classifier (two near-identical documents so that calls score the same document; scenarios 8-10 add a document shorter than q, which is indexed with its own q); every interleaving within the stated delay/preemption bound; each call must return its solo result, the deep state hash (all classifier fields and package variables) must be unchanged, no panic; states = explored schedules, transitions = scheduling decisions; non-trivial = schedules with at least two simultaneously enabled threads and more context switches than threads"
	c.Bound("inputs_per_thread", fmt.Sprint(pick))
	c.Assume("go-diff, regexp and the runtime are atomic steps for the scheduler (yield points surround the calls into go-diff); the memory-model half is decided by c09_frozen")
	c.Bound("threads", nthreads)
	c.Bound("trace_configuration", c.Param("trace", "off"))
	c.Bound(c.Param("policy", "delay")+"_bound", budget)
	h0 := vStateHash(mk(), false)
	yields := 0
	// calibration: one free run of every input counts how often each yield site fires; only
	// sites that fire at most maxsite times per call are scheduling points (drops leaf helpers
	// such as dictionary lookups that run hundreds of times and touch no classifier-level state)
	maxSite := c.ParamInt("maxsite", c.Pick(6, 24))
	hist := map[string]int{}
	keep := map[string]bool{}
	vx.Replay(nil, func(r *vx.Run) {
		s := vsync.New(r, pol)
		s.YieldFilter = func(site string) bool { hist[site]++; return false }
		s.Main(func() {
			for _, in := range inputs {
				mk().Match(in)
			}
		})
	})
	for site, n := range hist {
		if n <= maxSite*len(inputs) {
			keep[site] = true
		}
	}
	if len(hist) < 20 {
		panic("c09_sched needs a vinstr yield profile (v2coarse / v2fine): no yield sites fired")
	}
	c.Bound("yield_sites_total", len(hist))
	c.Bound("yield_sites_scheduled", len(keep))
	body := func(r *vx.Run) {
		s := vsync.New(r, pol)
		s.Horizon = 200000
		s.YieldFilter = func(site string) bool { return keep[site] }
		// a COLD classifier per execution: state that is built lazily on first use is built under
		// the explored interleaving, not by an earlier execution
		cl := mk()
		got := make([]string, nthreads)
		// the callers' inputs are ADJACENT sub-slices of one buffer (members of an archive, pieces of a
		// mapped file): each slice's capacity reaches into its neighbour, which belongs to another call
		var arena []byte
		offs := make([]int, nthreads+1)
		for t := 0; t < nthreads; t++ {
			offs[t] = len(arena)
			arena = append(arena, inputs[pick[t]]...)
		}
		offs[nthreads] = len(arena)
		arena = append(arena, "\xee\xee\xee\xee"...)
		pristine := append([]byte(nil), arena...)
		s.Main(func() {
			var wg vsync.WaitGroup
			wg.Add(nthreads)
			for t := 0; t < nthreads; t++ {
				t := t
				vsync.Go(fmt.Sprintf("caller%d", t), func() {
					in := arena[offs[t]:offs[t+1]]
					if t%2 == 1 && c.Param("api", "mixed") != "match" {
						res, err := cl.MatchFrom(bytes.NewReader(in))
						got[t] = vFmt(res)
						if err != nil {
							got[t] = "error " + err.Error()
						}
					} else {
						got[t] = vFmt(cl.Match(in))
					}
					wg.Done()
				})
			}
			wg.Wait()
		})
		yields = s.Steps
		msg := ""
		if s.Panic != "" {
			msg = "panic in a concurrent Match: " + s.Panic
		} else if s.Deadlock != "" {
			msg = s.Deadlock
		} else if len(s.Races) > 0 {
			// access profile: two calls touched one location of shared state, one of them writing
			msg = s.Races[0].String()
		} else if s.HorizonHit {
			msg = ""
			r.Note = map[string]interface{}{"horizon": true}
			return
		} else {
			for t := 0; t < nthreads; t++ {
				if got[t] != want[pick[t]] {
					msg = fmt.Sprintf("thread %d (input %d) got %s, alone it gets %s", t, pick[t], got[t], want[pick[t]])
				}
			}
			// Match on the unchanged tree takes no lock and therefore may not write to anything reachable
			// from the classifier; code that synchronises may keep state (a guarded cache), which the
			// access jobs and the result comparison judge instead
			if msg == "" && !bytes.Equal(arena, pristine) {
				at := 0
				for at < len(arena) && arena[at] == pristine[at] {
					at++
				}
				msg = fmt.Sprintf("the buffer holding the callers' inputs was modified at offset %d (inputs end at %v): %q became %q", at, offs[1:], pristine[at], arena[at])
			}
			if msg == "" && s.SyncOps == 0 && vStateHash(cl, false) != h0 {
				msg = "classifier state changed by concurrent Match calls that use no synchronisation"
			}
		}
		r.Note = map[string]interface{}{"msg": msg, "switches": s.Switches, "steps": s.Steps, "enabled": s.MaxEnabled, "obs": fmt.Sprintf("%v|%d|%d|%s", got, s.Steps, s.Switches, msg)}
	}
	c.Run(vSplitExplorer(c, budget, 6), body, func(r *vx.Run) {
		if r.Note["horizon"] != nil {
			c.R.Exhaustive = false
			c.Note("step horizon hit")
			return
		}
		c.R.Transitions += int64(r.Note["steps"].(int))
		if r.Note["enabled"].(int) >= 2 && r.Note["switches"].(int) > nthreads {
			c.Nontrivial(fmt.Sprint(r.Choices))
		}
		c.Outcome(fmt.Sprint(r.Note["switches"]))
		if c.R.Evaluations%200 == 1 {
			c.Sample(map[string]interface{}{"schedule_choices": fmt.Sprint(r.Choices), "context_switches": r.Note["switches"], "scheduling_points": r.Note["steps"]})
		}
		if m := r.Note["msg"].(string); m != "" {
			c.Violate("c09_sched:"+strings.SplitN(m, " got ", 2)[0], fmt.Sprintf("scenario %v schedule %v: %s", pick, r.Choices, m), r, m)
		}
	})
	c.R.States = c.R.Evaluations // one terminal state per explored schedule; positions are not hashed
	c.Bound("scheduling_points_per_execution", yields)
}

// ---- free-running race pass ------------------------------------------------------

func c09Race(c *vrep.Ctx) {
	cl := vEmbedded(0.8)
	pool := vDocPool(c.Pick(24, 80))
	n := c.Pick(32, 64)
	c.R.Rule = fmt.Sprintf("free-running companion (sampling over schedules, reported separately): %d real goroutines, GOMAXPROCS>1, -race build, each matching planted/edited documents from a %d-document pool on one shared embedded classifier; results compared with the sequential results; the Go race detector's reports are violations", n, len(pool))
	var inputs [][]byte
	for i, d := range pool {
		t := vParse(d.Bytes)
		if i%2 == 1 && t.nwords() > 20 {
			t.apply(vEditSubOOV, t.nwords()/2, i)
			t.apply(vEditDelete, t.nwords()/3, i)
		}
		inputs = append(inputs, []byte(vOOVBlock(1, 3, i)+string(t.bytes())+"\n"+vOOVBlock(1, 2, i+7)))
	}
	want := make([]string, len(inputs))
	for i, in := range inputs {
		want[i] = vFmt(cl.Match(in))
	}
	var wg sync.WaitGroup
	var mu sync.Mutex
	var bad []string
	rounds := c.Pick(2, 6)
	for g := 0; g < n; g++ {
		wg.Add(1)
		go func(g int) {
			defer wg.Done()
			for k := 0; k < rounds; k++ {
				i := (g*7 + k*13) % len(inputs)
				var got string
				if (g+k)%2 == 0 {
					got = vFmt(cl.Match(inputs[i]))
				} else {
					r, _ := cl.MatchFrom(bytes.NewReader(inputs[i]))
					got = vFmt(r)
				}
				if got != want[i] {
					mu.Lock()
					bad = append(bad, fmt.Sprintf("input %s: concurrent %s, sequential %s", pool[i].Key, got, want[i]))
					mu.Unlock()
				}
			}
		}(g)
	}
	wg.Wait()
	// twins: inputs of EQUAL byte length that share their first 5 KB and continue with different
	// documents, matched at the same time (anything that identifies an input by a prefix, its length
	// or a cheap digest would confuse them)
	head := strings.Repeat("zqhead zqfill ", 360)
	var twins [][]byte
	for i := 0; i+1 < len(pool) && len(twins) < 8; i += 2 {
		a, b := head+string(pool[i].Bytes), head+string(pool[i+1].Bytes)
		for len(a) < len(b) {
			a += "\n"
		}
		for len(b) < len(a) {
			b += "\n"
		}
		twins = append(twins, []byte(a), []byte(b))
	}
	twant := make([]string, len(twins))
	for i, in := range twins {
		twant[i] = vFmt(cl.Match(in))
	}
	trounds := c.Pick(20, 60)
	for g := 0; g < 8; g++ {
		wg.Add(1)
		go func(g int) {
			defer wg.Done()
			for k := 0; k < trounds; k++ {
				i := (k/4*2)%len(twins) + (g+k)%2 // all goroutines on the two halves of one pair at a time
				if got := vFmt(cl.Match(twins[i])); got != twant[i] {
					mu.Lock()
					bad = append(bad, fmt.Sprintf("twin input %d (5 KB common head, then %s): concurrent %s, sequential %s", i, pool[i].Key, got, twant[i]))
					mu.Unlock()
				}
			}
		}(g)
	}
	wg.Wait()
	c.R.Evaluations = int64(n*rounds + 8*trounds)
	c.R.Nontrivial = int64(len(inputs) + len(twins))
	c.Sample(map[string]interface{}{"goroutines": n, "calls": n*rounds + 8*trounds})
	sort.Strings(bad)
	for _, b := range bad {
		c.Violate("c09_race:result:"+strings.SplitN(b, ":", 2)[0], b, nil, b)
	}
	c.R.Exhaustive = false
}

// c09_access_corpus: the access monitor over the embedded corpus. Concurrent Match calls share no
// synchronisation, so a write to any monitored location that another call touches is reported
// from ANY schedule; what has to vary is the path through the code. Every pool document (odd
// ones edited) is matched by two modelled threads against its neighbour's input, under the
// default schedule and with the second thread started first.
func init() { vRegister("c09_access_corpus", c09AccessCorpus) }

func c09AccessCorpus(c *vrep.Ctx) {
	cl := vEmbeddedCached(0.8)
	pool := vDocPool(c.Pick(48, 431))
	if !c.Thorough() {
		// and two neighbours of more than 3 000 tokens (paths taken only by large targets)
		for _, d := range vCorpusFiles() {
			if d.Key == "License/APSL-1.1/license.txt" || d.Key == "License/APSL-1.2/license.txt" {
				pool = append(pool, d)
			}
		}
	}
	var inputs [][]byte
	for i, d := range pool {
		t := vParse(d.Bytes)
		if i%2 == 1 && t.nwords() > 20 {
			t.apply(vEditSubOOV, t.nwords()/2, i)
			t.apply(vEditDelete, t.nwords()/3, i)
		}
		inputs = append(inputs, []byte(vOOVBlock(1, 3, i)+string(t.bytes())+"\n"+vOOVBlock(1, 2, i+7)))
	}
	// the same texts bare (an input no longer than the document takes other branches)
	nctx := len(inputs)
	for i := 0; i < nctx; i++ {
		t := vParse(pool[i].Bytes)
		if i%2 == 1 && t.nwords() > 20 {
			t.apply(vEditSubOOV, t.nwords()/2, i)
			t.apply(vEditDelete, t.nwords()/3, i)
		}
		inputs = append(inputs, t.bytes())
	}
	c.R.Rule = fmt.Sprintf("access monitor (every field of the package's struct types, slice elements reached through them, every package variable) on the embedded corpus: for each of %d pool documents (every second one edited) two modelled threads call Match / MatchFrom on it and on its neighbour concurrently (in OOV context), and both on the bare text; schedules: first thread first, second thread first, one switch in the middle; no write may be unordered with another call's access, each call returns its solo result; non-trivial = executions in which both calls returned a match", len(pool))
	c.Bound("documents", len(pool))
	fired := false
	soloRes := map[int]string{}
	solo := func(i int) string {
		if w, ok := soloRes[i]; ok {
			return w
		}
		soloRes[i] = vFmt(cl.Match(inputs[i]))
		return soloRes[i]
	}
	body := func(r *vx.Run) {
		i := r.Choose(len(inputs), "document")
		if r.Scout() {
			return
		}
		order := r.Choose(3, "order") // 0 first caller runs first, 1 second caller first, 2 one switch in the middle of the first
		j := (i + 1) % len(inputs)
		if i >= nctx {
			j = i // bare inputs: both calls on the same text (they score the same documents)
		}
		s := vsync.New(r, vsync.Delay)
		s.Horizon = 50000000
		n := 0
		s.YieldFilter = func(site string) bool { n++; return order == 2 && n == 3000 }
		var got [2]string
		s.Main(func() {
			var wg vsync.WaitGroup
			wg.Add(2)
			c0 := func() { got[0] = vFmt(cl.Match(inputs[i])); wg.Done() }
			c1 := func() {
				res, _ := cl.MatchFrom(bytes.NewReader(inputs[j]))
				got[1] = vFmt(res)
				wg.Done()
			}
			if order == 1 {
				vsync.Go("caller1", c1)
				vsync.Go("caller0", c0)
			} else {
				vsync.Go("caller0", c0)
				vsync.Go("caller1", c1)
			}
			wg.Wait()
		})
		if s.Accesses > 0 {
			fired = true
		}
		msg := ""
		switch {
		case s.Panic != "":
			msg = "panic in a concurrent Match: " + s.Panic
		case s.Deadlock != "":
			msg = s.Deadlock
		case len(s.Races) > 0:
			msg = s.Races[0].String()
		default:
			if w := solo(i); got[0] != w {
				msg = fmt.Sprintf("Match(%s) returned %s concurrently, %s alone", pool[i%nctx].Key, got[0], w)
			}
			if w := solo(j); got[1] != w {
				msg = fmt.Sprintf("MatchFrom(%s) returned %s concurrently, %s alone", pool[j%nctx].Key, got[1], w)
			}
		}
		r.Note = map[string]interface{}{"id": fmt.Sprintf("%s || %s (bare=%v)", pool[i%nctx].Key, pool[j%nctx].Key, i >= nctx), "msg": msg, "both": strings.Contains(got[0], " | ") && strings.Contains(got[1], " | "), "obs": fmt.Sprint(got, msg)}
	}
	c.Run(vSplitExplorer(c, 0, 1), body, func(r *vx.Run) {
		id := r.Note["id"].(string)
		if r.Note["both"].(bool) {
			c.Nontrivial(fmt.Sprint(id, r.Choices))
		}
		if m := r.Note["msg"].(string); m != "" {
			c.Violate("c09_access_corpus:"+strings.SplitN(m, " is unordered", 2)[0], id+": "+m, r, m)
		}
	})
	if !fired && c.Replay == nil && c.R.Evaluations > 0 {
		panic("c09_access_corpus needs the v2access instrumentation profile: no access event fired")
	}
}
