//go:build verif && go1.21

package classifier

import (
	"fmt"
	"sort"
	"strconv"
	"strings"

	"verifh/vrep"
	"verifh/vx"
)

// C01: a corpus document planted verbatim between out-of-vocabulary text is
// reported whole at confidence exactly 1.0 with the exact span.

func init() {
	vRegister("c01_embedded", c01Embedded)
	vRegister("c01_sequences", c01Sequences)
	vRegister("c01_small", c01Small)
}

type c01Ctx struct{ pre, preWords, suf int }

// context menu: (prefix lines, words per line, suffix lines)
var c01Contexts = []c01Ctx{{1, 3, 1}, {5, 7, 1}, {40, 9, 5}, {1, 1, 5}, {5, 2, 5}, {17, 12, 1}}

// c01Expect checks that res holds the expected match for a copy of doc key
// occupying tokens [start, start+n).
func c01Expect(res Results, toks []vTok, name, mtype string, start, n int) string {
	end := start + n - 1
	var near []string
	for _, m := range res.Matches {
		if m.Name == name && m.MatchType == mtype {
			if m.Confidence == 1.0 && m.StartTokenIndex == start && m.EndTokenIndex == end &&
				m.StartLine == toks[start].Line && m.EndLine == toks[end].Line {
				return ""
			}
			near = append(near, vFmtMatch(m))
		}
	}
	return fmt.Sprintf("no match %s/%s conf=1 toks=%d-%d lines=%d-%d; same-name matches: %v; all: %s", mtype, name, start, end,
		toks[start].Line, toks[end].Line, near, vFmt(res))
}

func c01Embedded(c *vrep.Ctx) {
	t, _ := strconv.ParseFloat(c.Param("t", "0.8"), 64)
	cl := vEmbeddedCached(t)
	if c.Param("history", "") == "normalize" {
		// the classifier has been used before: Normalize calls on a text with every variant spelling the
		// tokenizer knows, on a few documents, and on 3 000 unseen words (Normalize interns what it reads)
		cl = vEmbedded(t)
		cl.Normalize([]byte("the licence of this programme and the organisation's favour whilst a court judgment acknowledgement authorised centre colour labelled behaviour honour recognise analyse cancelled catalogue defence dialogue fulfil grey initialise jewellery modelling neighbour offence optimise practise sceptical speciality theatre travelling sub-licence sub license non-commercial per cent copyright owner copyright holder"))
		for _, d := range vDocPool(6) {
			cl.Normalize(d.Bytes)
		}
		var sb strings.Builder
		for i := 0; i < 3000; i++ {
			fmt.Fprintf(&sb, "Zqhist%c%c%c ", 'a'+i%26, 'a'+(i/26)%26, 'a'+i/676)
		}
		cl.Normalize([]byte(sb.String()))
		c.Bound("history", "Normalize calls before the first Match")
	}
	queriesFirst := c.Param("history", "") == "queries"
	if queriesFirst {
		// the classifier answers other queries about the SAME document first: the document without
		// its most frequent words, its first third, every second word, its distinct words once each
		cl = vEmbedded(t)
		c.Bound("history", "four shorter, similar inputs derived from the document are matched before the planted copy")
	}
	vCheckOOV(cl, 1000)
	docs := vCorpusFiles()
	nctx := c.Pick(1, len(c01Contexts))
	c.R.Rule = "every embedded corpus document (original bytes, line aligned) x context menu (OOV prefix/suffix blocks) at the job's threshold; expected span computed white-box from the harness's own tokenisation; non-trivial = distinct (document, context) cases whose document has >= q words and whose planted copy tokenises to exactly the corpus words"
	c.Bound("threshold", t)
	c.Bound("contexts", nctx)
	c.Bound("documents", len(docs))
	body := func(r *vx.Run) {
		di := r.Choose(len(docs), "doc")
		ci := r.Choose(nctx, "ctx")
		d := docs[di]
		words := vDocWords(cl, d.Key)
		if len(words) < cl.q || len(words) == 0 {
			r.Note = map[string]interface{}{"skip": "shorter than q"}
			return
		}
		cx := c01Contexts[ci]
		prefix := vOOVBlock(cx.pre, cx.preWords, di)
		suffix := "\n" + vOOVBlock(cx.suf, 4, di+500)
		in := []byte(prefix + string(d.Bytes) + suffix)
		toks := vTokenize(in)
		start := len(vTokenize([]byte(prefix)))
		if start+len(words) > len(toks) || strings.Join(vWords(toks[start:start+len(words)]), " ") != strings.Join(words, " ") {
			r.Note = map[string]interface{}{"skip": "copy does not tokenise to the corpus words in context"}
			return
		}
		if queriesFirst {
			for _, q := range c01ShortQueries(words) {
				cl.Match([]byte(q))
			}
		}
		res := cl.Match(in)
		msg := c01Expect(res, toks, d.Name, d.Category, start, len(words))
		r.Note = map[string]interface{}{"doc": d.Key, "ctx": ci, "msg": msg, "n": len(words)}
	}
	c.Run(c.Explorer(0), body, func(r *vx.Run) {
		if r.Note["skip"] != nil {
			c.Note(fmt.Sprintf("skipped: %v", r.Note["skip"]))
			return
		}
		key := fmt.Sprintf("%v|%v", r.Note["doc"], r.Note["ctx"])
		c.Nontrivial(key)
		c.Sample(map[string]interface{}{"doc": r.Note["doc"], "context": c01Contexts[r.Note["ctx"].(int)], "threshold": t, "doc_words": r.Note["n"]})
		if msg := r.Note["msg"].(string); msg != "" {
			c.Violate(fmt.Sprintf("c01emb:%v:T%v:ctx%v", r.Note["doc"], t, r.Note["ctx"]),
				fmt.Sprintf("planted %v at T=%v ctx=%v: %s", r.Note["doc"], t, r.Note["ctx"], msg), r, msg)
		} else {
			c.Outcome("found")
		}
	})
}

// c01ShortQueries: inputs that are shorter than the document but similar to it.
func c01ShortQueries(words []string) []string {
	freq := map[string]int{}
	for _, w := range words {
		freq[w]++
	}
	type wc struct {
		w string
		n int
	}
	var byFreq []wc
	for w, n := range freq {
		byFreq = append(byFreq, wc{w, n})
	}
	sort.Slice(byFreq, func(i, j int) bool {
		if byFreq[i].n != byFreq[j].n {
			return byFreq[i].n > byFreq[j].n
		}
		return byFreq[i].w < byFreq[j].w
	})
	top := map[string]bool{}
	for i := 0; i < len(byFreq)*15/100+1 && i < len(byFreq); i++ {
		top[byFreq[i].w] = true
	}
	var stripped, second, once []string
	seen := map[string]bool{}
	for i, w := range words {
		if !top[w] {
			stripped = append(stripped, w)
		}
		if i%2 == 0 {
			second = append(second, w)
		}
		if !seen[w] {
			seen[w] = true
			once = append(once, w)
		}
	}
	return []string{strings.Join(stripped, " "), strings.Join(words[:len(words)/3+1], " "), strings.Join(second, " "), strings.Join(once, " ")}
}

// pool of documents for planted sequences: short header, long license, a
// document contained in another (MPL in NPL), identical twins, tiny ones.
var c01Pool = []string{
	"License/MIT/pristine.txt", "Header/Apache-2.0/header.txt", "License/MPL-1.1/license.txt", "License/NPL-1.1/license.txt",
	"License/WTFPL/license.txt", "License/WTFPL/v2.txt", "License/BSD-3-Clause/pristine.txt", "License/ISC/license.txt",
	"License/Apache-2.0/pristine.txt", "License/GPL-2.0/license.txt", "Header/GPL-2.0/header.txt", "License/Unlicense/license.txt",
}

func c01PoolDocs() []vDoc {
	byKey := map[string]vDoc{}
	for _, d := range vCorpusFiles() {
		byKey[d.Key] = d
	}
	var out []vDoc
	for _, k := range c01Pool {
		if d, ok := byKey[k]; ok {
			out = append(out, d)
		}
	}
	// fill up deterministically if names moved
	for _, d := range vCorpusFiles() {
		if len(out) >= 12 {
			break
		}
		dup := false
		for _, o := range out {
			if o.Key == d.Key {
				dup = true
			}
		}
		if !dup && len(d.Bytes) < 3000 {
			out = append(out, d)
		}
	}
	return out
}

func c01Sequences(c *vrep.Ctx) {
	t, _ := strconv.ParseFloat(c.Param("t", "0.8"), 64)
	cl := vEmbeddedCached(t)
	pool := c01PoolDocs()
	maxN := c.Pick(2, 3)
	c.R.Rule = "all ordered sequences (with repetition) of 2..N documents from a 12-document pool (incl. MPL inside NPL, the two textually identical WTFPL variants, headers), OOV separator lines between copies; every copy must be reported with its own name at confidence 1.0 and exact span; non-trivial = distinct sequences"
	c.Bound("threshold", t)
	c.Bound("max_sequence", maxN)
	c.Bound("pool", len(pool))
	body := func(r *vx.Run) {
		n := 2 + r.Choose(maxN-1, "n")
		seq := make([]int, n)
		for i := range seq {
			seq[i] = r.Choose(len(pool), "doc")
		}
		if r.Scout() {
			return
		}
		var sb strings.Builder
		sb.WriteString(vOOVBlock(2, 5, 0))
		type exp struct {
			d     vDoc
			start int
			n     int
		}
		var exps []exp
		for i, di := range seq {
			d := pool[di]
			words := vDocWords(cl, d.Key)
			start := len(vTokenize([]byte(sb.String())))
			sb.Write(d.Bytes)
			sb.WriteString("\n" + vOOVBlock(1+i%2, 6, 40+i*20))
			exps = append(exps, exp{d, start, len(words)})
		}
		in := []byte(sb.String())
		toks := vTokenize(in)
		res := cl.Match(in)
		var msgs []string
		var names []string
		for _, e := range exps {
			names = append(names, e.d.Key)
			if e.n < cl.q {
				continue
			}
			if m := c01Expect(res, toks, e.d.Name, e.d.Category, e.start, e.n); m != "" {
				msgs = append(msgs, e.d.Key+": "+m)
			}
		}
		r.Note = map[string]interface{}{"seq": names, "msg": strings.Join(msgs, " ;; ")}
	}
	c.Run(vSplitExplorer(c, 0, 2), body, func(r *vx.Run) {
		key := fmt.Sprint(r.Note["seq"])
		c.Nontrivial(key)
		c.Sample(map[string]interface{}{"sequence": r.Note["seq"], "threshold": t})
		if msg := r.Note["msg"].(string); msg != "" {
			c.Violate(fmt.Sprintf("c01seq:T%v:%s", t, key), fmt.Sprintf("planted sequence %s at T=%v: %s", key, t, msg), r, msg)
		} else {
			c.Outcome("found")
		}
	})
}

// c01Small: user-added corpora over the small vocabulary.
func c01Small(c *vrep.Ctx) {
	t, _ := strconv.ParseFloat(c.Param("t", "0.8"), 64)
	vSmallSettings(c.Param("vocab", "ascii"), 0)
	c.Bound("vocabulary", fmt.Sprintf("%q", vSmallVocab))
	q := computeQ(t)
	minLen := q
	maxLen := c.Pick(5, 6)
	if maxLen < q+1 {
		maxLen = q + 1
	}
	if q >= 9 {
		maxLen = q + c.Pick(0, 1)
	}
	c.R.Rule = "every document over {aa,bb,cc} of length q..L as a one-document user corpus (and with a second fixed document), planted once or twice in every context of <=2 OOV words before/between/after, on the same line and on separate lines; expected span white-box; non-trivial = distinct (document, layout) cases"
	c.Bound("threshold", t)
	c.Bound("q", q)
	c.Bound("doc_len_min", minLen)
	c.Bound("doc_len_max", maxLen)
	seps := []string{" ", "\n"}
	maxCtx := 2
	if q >= 9 {
		// 3^9.. documents: restrict to periodic/structured ones
		maxCtx = 1
	}
	body := func(r *vx.Run) {
		var doc []string
		if q >= 9 {
			// structured long documents: period p pattern over the vocabulary, rotated
			p := 1 + r.Choose(4, "period")
			pat := make([]string, p)
			for i := range pat {
				pat[i] = vSmallVocab[r.Choose(3, "sym")]
			}
			n := minLen + r.Choose(maxLen-minLen+1, "len")
			for i := 0; i < n; i++ {
				doc = append(doc, pat[i%p])
			}
		} else {
			doc = vChooseWords(r, vSmallVocab, minLen, maxLen)
		}
		second := r.Choose(2, "second-doc")
		copies := 1 + r.Choose(2, "copies")
		pre := r.Choose(maxCtx+1, "pre")
		mid := 1 + r.Choose(maxCtx, "mid")
		post := r.Choose(maxCtx+1, "post")
		sep := seps[r.Choose(2, "sep")]
		if r.Scout() {
			return
		}
		cl := NewClassifier(t)
		if c.Param("replace", "no") == "yes" {
			// history: the name first holds another text, which the real document then replaces
			cl.AddContent("License", "Doc", "license.txt", []byte("cc cc aa bb bb cc aa aa bb cc"))
		}
		cl.AddContent("License", "Doc", "license.txt", []byte(strings.Join(doc, " ")))
		if second == 1 {
			cl.AddContent("License", "Other", "license.txt", []byte("cc bb aa cc bb aa bb cc aa bb cc"))
		}
		oov := func(n, salt int) string {
			var w []string
			for i := 0; i < n; i++ {
				w = append(w, vOOV(salt+i))
			}
			return strings.Join(w, " ")
		}
		var parts []string
		var starts []int
		nw := 0
		if pre > 0 {
			parts = append(parts, oov(pre, 0))
			nw += pre
		}
		for k := 0; k < copies; k++ {
			if k > 0 {
				parts = append(parts, oov(mid, 10))
				nw += mid
			}
			starts = append(starts, nw)
			parts = append(parts, strings.Join(doc, " "))
			nw += len(doc)
		}
		if post > 0 {
			parts = append(parts, oov(post, 20))
		}
		// the statement requires separation from the file ends by unrelated text
		if pre == 0 || post == 0 {
			r.Note = map[string]interface{}{"skip": true}
			return
		}
		in := []byte(strings.Join(parts, sep))
		toks := vTokenize(in)
		res := cl.Match(in)
		var msgs []string
		for _, s := range starts {
			if m := c01Expect(res, toks, "Doc", "License", s, len(doc)); m != "" {
				msgs = append(msgs, m)
			}
		}
		r.Note = map[string]interface{}{"in": string(in), "doc": strings.Join(doc, " "), "second": second, "msg": strings.Join(msgs, " ;; ")}
	}
	c.Run(vSplitExplorer(c, 0, 3), body, func(r *vx.Run) {
		if r.Note["skip"] != nil {
			return
		}
		key := fmt.Sprintf("%v|%v|%v", r.Note["doc"], r.Note["second"], r.Note["in"])
		c.Nontrivial(key)
		c.Sample(map[string]interface{}{"corpus_doc": r.Note["doc"], "input": r.Note["in"], "threshold": t})
		if msg := r.Note["msg"].(string); msg != "" {
			c.Violate(fmt.Sprintf("c01small:T%v:%s", t, key), fmt.Sprintf("corpus {%v} second=%v input %q at T=%v: %s", r.Note["doc"], r.Note["second"], r.Note["in"], t, msg), r, msg)
		} else {
			c.Outcome("found")
		}
	})
}

// c01Composites: user corpora in which a third document is built from pieces of the two planted
// ones (A + a prefix of B, a suffix of A + B, A + B, B + A ...): such a document matches the
// region around the copies with a lower confidence but more tokens and competes with the exact
// copies in the overlap filter.
func init() { vRegister("c01_composites", c01Composites) }

func c01Composites(c *vrep.Ctx) {
	t, _ := strconv.ParseFloat(c.Param("t", "0.8"), 64)
	word := func(p string, i int) string { return p + string(rune('a'+i/5)) + string(rune('k'+i%5)) + "o" }
	mk := func(p string, n int) []string {
		var w []string
		for i := 0; i < n; i++ {
			w = append(w, word(p, i))
		}
		return w
	}
	lens := []int{10, 16}
	type comp struct {
		name string
		mk   func(a, b []string) []string
	}
	cat := func(x ...[]string) []string {
		var o []string
		for _, s := range x {
			o = append(o, s...)
		}
		return o
	}
	comps := []comp{
		{"none", nil},
		{"A+first third of B", func(a, b []string) []string { return cat(a, b[:len(b)/3]) }},
		{"A+first half of B", func(a, b []string) []string { return cat(a, b[:len(b)/2]) }},
		{"A+most of B", func(a, b []string) []string { return cat(a, b[:len(b)-2]) }},
		{"second half of A+B", func(a, b []string) []string { return cat(a[len(a)/2:], b) }},
		{"last words of A+B", func(a, b []string) []string { return cat(a[len(a)-3:], b) }},
		{"A+foreign words+first half of B", func(a, b []string) []string { return cat(a, mk("w", 2), b[:len(b)/2]) }},
		{"first half of B+A", func(a, b []string) []string { return cat(b[:len(b)/2], a) }},
	}
	c.R.Rule = fmt.Sprintf("user corpora {A, B, composite}: A, B of %v distinct words, composite drawn from %d documents built from pieces of A and B (A + a third / half / most of B, a suffix of A + B, with foreign words in between, B-part before A); input = OOV line, A laid out on 1-2 lines, an OOV gap of 1/2/4 words on A's last line, on its own line, or joining A's last and B's first line into one, B on 1-3 lines, OOV line; both copies must be reported with Confidence 1.0 and exact spans and lines; thresholds by parameter; non-trivial = distinct (lengths, composite, layout) cases", lens, len(comps)-1)
	c.Bound("threshold", t)
	body := func(r *vx.Run) {
		na := lens[r.Choose(len(lens), "len A")]
		nb := lens[r.Choose(len(lens), "len B")]
		ci := r.Choose(len(comps), "composite")
		la := 1 + r.Choose(2, "lines of A")
		lb := 1 + r.Choose(3, "lines of B")
		gap := []int{1, 2, 4}[r.Choose(3, "gap words")]
		gapMode := r.Choose(3, "gap placement") // 0 on A's last line, 1 on its own line, 2 A, gap and B's first line on ONE line
		gapOwn := gapMode == 1
		a, b := mk("a", na), mk("b", nb)
		cl := NewClassifier(t)
		cl.AddContent("License", "DocA", "license.txt", []byte(strings.Join(a, " ")))
		cl.AddContent("License", "DocB", "license.txt", []byte(strings.Join(b, " ")))
		if comps[ci].mk != nil {
			cl.AddContent("License", "DocC", "license.txt", []byte(strings.Join(comps[ci].mk(a, b), " ")))
		}
		lay := func(w []string, lines int) string {
			var out []string
			per := (len(w) + lines - 1) / lines
			for i := 0; i < len(w); i += per {
				e := i + per
				if e > len(w) {
					e = len(w)
				}
				out = append(out, strings.Join(w[i:e], " "))
			}
			return strings.Join(out, "\n")
		}
		var gw []string
		for i := 0; i < gap; i++ {
			gw = append(gw, vOOV(30+i))
		}
		var sb strings.Builder
		sb.WriteString(vOOV(1) + " " + vOOV(2) + "\n")
		startA := 2
		sb.WriteString(lay(a, la))
		if gapOwn {
			sb.WriteString("\n" + strings.Join(gw, " ") + "\n")
		} else if gapMode == 2 {
			sb.WriteString(" " + strings.Join(gw, " ") + " ")
		} else {
			sb.WriteString(" " + strings.Join(gw, " ") + "\n")
		}
		startB := startA + na + gap
		sb.WriteString(lay(b, lb))
		sb.WriteString("\n" + vOOV(5) + " " + vOOV(6) + "\n")
		in := []byte(sb.String())
		toks := vTokenize(in)
		res := cl.Match(in)
		var msgs []string
		if na >= cl.q {
			if m := c01Expect(res, toks, "DocA", "License", startA, na); m != "" {
				msgs = append(msgs, "DocA: "+m)
			}
		}
		if nb >= cl.q {
			if m := c01Expect(res, toks, "DocB", "License", startB, nb); m != "" {
				msgs = append(msgs, "DocB: "+m)
			}
		}
		// mechanism of the recorded finding (overlap filter of match(): line based, prefers the match
		// with more tokens x confidence): a copy is missing altogether, and the result retains a match
		// of ANOTHER document that weighs more and whose line range contains the copy's line range or
		// is contained in it (a composite document covering the copy; a longer document's copy on the
		// same line)
		class := ""
		if len(msgs) > 0 {
			class = "copy-loses-line-containment-to-heavier-match"
			for _, x := range []struct {
				name     string
				start, n int
			}{{"DocA", startA, na}, {"DocB", startB, nb}} {
				if x.n < cl.q || c01Expect(res, toks, x.name, "License", x.start, x.n) == "" {
					continue
				}
				xs, xe := toks[x.start].Line, toks[x.start+x.n-1].Line
				explained := false
				for _, m := range res.Matches {
					if m.Name == x.name {
						explained = false // the copy's own document is reported, but wrongly: not this mechanism
						class = ""
						break
					}
					w := float64(m.EndTokenIndex-m.StartTokenIndex) * m.Confidence
					nested := (m.StartLine <= xs && m.EndLine >= xe) || (xs <= m.StartLine && xe >= m.EndLine)
					if m.MatchType != "Copyright" && nested && w > float64(x.n-1) {
						explained = true
					}
				}
				if !explained {
					class = ""
				}
			}
		}
		r.Note = map[string]interface{}{"id": fmt.Sprintf("|A|=%d |B|=%d composite=%q A on %d lines, gap %d words (placement %d), B on %d lines", na, nb, comps[ci].name, la, gap, gapMode, lb), "msg": strings.Join(msgs, " ;; "), "comp": comps[ci].name, "class": class}
	}
	c.Run(c.Explorer(0), body, func(r *vx.Run) {
		id := r.Note["id"].(string)
		c.Nontrivial(id)
		c.Sample(id)
		if m := r.Note["msg"].(string); m != "" {
			key := fmt.Sprintf("c01_composites:T%v:%s", t, strings.ReplaceAll(id, " ", "_"))
			if cls := r.Note["class"].(string); cls != "" {
				key = "c01:class:" + cls
			}
			c.Violate(key, fmt.Sprintf("T=%v %s: %s", t, id, m), r, m)
		} else {
			c.Outcome("found")
		}
	})
}

// c01Lengths: a user document of EVERY length from q to 200 words (distinct words, and a period-3
// pattern), planted in context at every threshold of the menu: counts and ratios of counts
// (threshold x length, error margins, window sizes) go through integer and floating-point
// arithmetic that small documents never exercise.
func init() { vRegister("c01_lengths", c01Lengths) }

func c01Lengths(c *vrep.Ctx) {
	ts := []float64{0.7, 0.75, 0.8, 0.85, 0.9, 0.95, 0.99, 1}
	maxN := c.Pick(140, 300)
	c.R.Rule = fmt.Sprintf("user document of EVERY length q..%d words x {all words distinct, period-3 pattern} x thresholds %v x 3 contexts (own lines; after 2 OOV words on the same line; at the very start and end of the input); the copy must be reported with Confidence 1.0 and its exact span and lines; non-trivial = cases", maxN, ts)
	c.Bound("max_words", maxN)
	body := func(r *vx.Run) {
		ti := r.Choose(len(ts), "threshold")
		n := 1 + r.Choose(maxN, "length")
		if r.Scout() {
			return
		}
		kind := r.Choose(2, "distinct / periodic")
		ctx := r.Choose(3, "context")
		t := ts[ti]
		if n < computeQ(t) {
			r.Note = map[string]interface{}{"skip": true}
			return
		}
		var w []string
		for i := 0; i < n; i++ {
			if kind == 0 {
				w = append(w, vFillerWord(i))
			} else {
				w = append(w, vFillerWord(i%3))
			}
		}
		cl := NewClassifier(t)
		cl.AddContent("License", "Doc", "license.txt", []byte(strings.Join(w, " ")))
		var in string
		start := 0
		switch ctx {
		case 0:
			in = vOOV(1) + " " + vOOV(2) + "\n" + strings.Join(w, " ") + "\n" + vOOV(3) + "\n"
			start = 2
		case 1:
			in = vOOV(1) + " " + vOOV(2) + " " + strings.Join(w, " ") + " " + vOOV(3)
			start = 2
		default:
			in = strings.Join(w, " ")
		}
		toks := vTokenize([]byte(in))
		msg := c01Expect(cl.Match([]byte(in)), toks, "Doc", "License", start, n)
		r.Note = map[string]interface{}{"id": fmt.Sprintf("T=%v %d words kind=%d context=%d", t, n, kind, ctx), "msg": msg}
	}
	c.Run(vSplitExplorer(c, 0, 2), body, func(r *vx.Run) {
		if r.Note["skip"] != nil {
			c.R.Evaluations--
			return
		}
		id := r.Note["id"].(string)
		c.Nontrivial(id)
		if m := r.Note["msg"].(string); m != "" {
			c.Violate("c01_lengths:"+strings.ReplaceAll(id, " ", "_"), id+": "+m, r, m)
		} else {
			c.Outcome("found")
		}
	})
}

// c01Refrains: user documents in which the same run of words recurs R times, for R just below /
// above the powers of two 16..512 (quick: ..256) and 300: clauses that all open with the same
// words (the refrain also opens the document), a strictly periodic body behind a preamble, and
// lines sharing a ten-word interior. The verbatim copy must be reported exactly.
func init() { vRegister("c01_refrains", c01Refrains) }

func c01Refrains(c *vrep.Ctx) {
	ts := []float64{0.7, 0.8, 1}
	var reps []int
	for _, b := range []int{16, 32, 64, 128, 256, 512}[:c.Pick(5, 6)] {
		for d := -2; d <= 2; d++ {
			reps = append(reps, b+d)
		}
	}
	reps = append(reps, 300)
	shapes := []string{"clauses opening with the same four words", "preamble + strictly periodic body", "lines sharing a ten-word interior"}
	c.R.Rule = fmt.Sprintf("user documents with a run of words recurring R times, R in %v x shapes %q x thresholds %v x {own lines behind unrelated words, bare}: the verbatim copy must be reported with Confidence 1.0 and its exact span and lines; non-trivial = cases", reps, shapes, ts)
	c.Bound("repeat_counts", fmt.Sprint(reps))
	body := func(r *vx.Run) {
		ti := r.Choose(len(ts), "threshold")
		ri := r.Choose(len(reps), "repeats")
		if r.Scout() {
			return
		}
		shape := r.Choose(len(shapes), "shape")
		ctx := r.Choose(2, "context")
		R := reps[ri]
		var lines []string
		switch shape {
		case 0:
			for i := 0; i < R; i++ {
				lines = append(lines, "the licensee shall not "+vFillerWord(2*i)+" "+vFillerWord(2*i+1))
			}
		case 1:
			lines = append(lines, "this agreement covers every single item listed below namely")
			for i := 0; i < R; i++ {
				lines = append(lines, "item covered under terms")
			}
		case 2:
			for i := 0; i < R; i++ {
				lines = append(lines, vFillerWord(2*i)+" subject to the terms and conditions set out in this part "+vFillerWord(2*i+1))
			}
		}
		doc := strings.Join(lines, "\n")
		n := len(strings.Fields(doc))
		cl := NewClassifier(ts[ti])
		cl.AddContent("License", "Doc", "license.txt", []byte(doc))
		in, start := doc, 0
		if ctx == 0 {
			in = vOOV(1) + " " + vOOV(2) + "\n" + doc + "\n" + vOOV(3) + "\n"
			start = 2
		}
		toks := vTokenize([]byte(in))
		msg := c01Expect(cl.Match([]byte(in)), toks, "Doc", "License", start, n)
		r.Note = map[string]interface{}{"id": fmt.Sprintf("T=%v %d x %s context=%d", ts[ti], R, shapes[shape], ctx), "msg": msg}
	}
	c.Run(vSplitExplorer(c, 0, 2), body, func(r *vx.Run) {
		id := r.Note["id"].(string)
		c.Nontrivial(id)
		if m := r.Note["msg"].(string); m != "" {
			c.Violate("c01_refrains:"+strings.ReplaceAll(id, " ", "_"), id+": "+m, r, m)
		} else {
			c.Outcome("found")
		}
	})
}
