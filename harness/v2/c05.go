//go:build verif && go1.21

package classifier

import (
	"fmt"
	"sort"
	"strconv"
	"strings"
	"unicode"

	"verifh/vrep"
	"verifh/vx"
)

// C05: presentation changes (case, horizontal whitespace, CRLF, blank lines,
// comment/quote decoration, typographic hyphens and quotes) do not change
// what is detected. Two levels: tokenizer (exhaustive over short strings) and
// Match (every corpus document x every kind).

func init() {
	vRegister("c05_tokens", c05Tokens)
	vRegister("c05_match", c05Match)
}

// vTransform rewrites eligible lines. A transform never touches a hyphen
// join site (see eligibleLines).
type vTransform struct {
	Name        string
	Line        func(l string, i int) string
	BlankBefore bool // additionally insert an empty line before every eligible line but the first
}

func swapCase(s string) string {
	b := []byte(s)
	for i, ch := range b {
		if ch >= 'a' && ch <= 'z' {
			b[i] = ch - 32
		} else if ch >= 'A' && ch <= 'Z' {
			b[i] = ch + 32
		}
	}
	return string(b)
}

func asciiUpper(s string) string {
	b := []byte(s)
	for i, ch := range b {
		if ch >= 'a' && ch <= 'z' {
			b[i] = ch - 32
		}
	}
	return string(b)
}

func asciiLower(s string) string {
	b := []byte(s)
	for i, ch := range b {
		if ch >= 'A' && ch <= 'Z' {
			b[i] = ch + 32
		}
	}
	return string(b)
}

func prefixer(p string) func(string, int) string {
	return func(l string, _ int) string { return p + l }
}

var vTransforms = []vTransform{
	{Name: "upper", Line: func(l string, _ int) string { return asciiUpper(l) }},
	{Name: "lower", Line: func(l string, _ int) string { return asciiLower(l) }},
	{Name: "swapcase", Line: func(l string, _ int) string { return swapCase(l) }},
	{Name: "crlf", Line: func(l string, _ int) string { return l + "\r" }},
	{Name: "tabs", Line: func(l string, _ int) string { return strings.ReplaceAll(l, " ", "\t") }},
	// other kinds of horizontal white space: no-break space everywhere; em space, thin space,
	// ideographic space, no-break space by line
	{Name: "nbsp", Line: func(l string, _ int) string { return strings.ReplaceAll(l, " ", "\u00a0") }},
	{Name: "unicode-blanks", Line: func(l string, i int) string {
		return strings.ReplaceAll(l, " ", []string{"\u2003", "\u2009", "\u3000", "\u00a0 ", "\u202f"}[i%5])
	}},
	{Name: "double-blanks", Line: func(l string, _ int) string { return strings.ReplaceAll(l, " ", "  ") }},
	{Name: "indent+trailing", Line: func(l string, i int) string { return strings.Repeat(" ", 1+i%7) + l + " \t " }},
	// amounts of white space beyond any plausible internal line or buffer size
	{Name: "deep-indent", Line: func(l string, i int) string { return strings.Repeat(" ", 4093+i%9) + l }},
	{Name: "deep-tabs+long-trailing", Line: func(l string, i int) string { return strings.Repeat("\t", 4200) + l + strings.Repeat(" ", 4090+i%13) }},
	{Name: "slashes", Line: prefixer("// ")},
	{Name: "hash", Line: prefixer("# ")},
	{Name: "star", Line: prefixer(" * ")},
	{Name: "semicolon", Line: prefixer(";; ")},
	{Name: "dashes", Line: prefixer("-- ")},
	{Name: "quote", Line: prefixer("> ")},
	{Name: "box", Line: func(l string, _ int) string { return "| " + l + " |" }},
	{Name: "percent", Line: prefixer("% ")},
	{Name: "tight-slashes", Line: prefixer("//")},
	{Name: "blank-lines", BlankBefore: true},
	{Name: "unicode-dashes", Line: func(l string, i int) string {
		// hyphen, non-breaking hyphen, figure dash, en dash, em dash, horizontal bar, minus sign
		d := []string{"\u2013", "\u2014", "\u2010", "\u2012", "\u2011", "\u2015", "\u2212"}[i%7]
		return strings.ReplaceAll(l, "-", d)
	}},
	{Name: "curly-quotes", Line: func(l string, _ int) string {
		l = strings.ReplaceAll(l, "\"", "”")
		return strings.ReplaceAll(l, "'", "’")
	}},
}

func isHyphen(r rune) bool {
	switch r {
	case '-', '‒', '–', '—', '‐', '\u2011', '\u2015', '\u2212':
		return true
	}
	return false
}

// eligibleLines marks the lines a transform may touch: everything except
// hyphen join sites. A join site is a line whose last non-blank character is
// a hyphen, plus the following lines up to and including the first one that
// starts a word (the continuation): the tokenizer defines that region as one
// word being joined and carries its state across it.
func eligibleLines(lines []string) []bool {
	el := make([]bool, len(lines))
	pending := false
	for i, l := range lines {
		el[i] = true
		if pending {
			el[i] = false
			if strings.IndexFunc(l, func(r rune) bool { return unicode.IsLetter(r) || unicode.IsDigit(r) || r == '&' || r == '(' }) >= 0 {
				pending = false
			}
		}
		t := strings.TrimRight(l, " \t\r\f\v")
		if t != "" {
			rs := []rune(t)
			if isHyphen(rs[len(rs)-1]) {
				el[i] = false
				pending = true
			}
		}
	}
	return el
}

// applyTransform returns the transformed text and, for every original line
// number (1-based), its new line number.
func applyTransform(tr vTransform, s string, only int) (string, []int) {
	lines := strings.Split(s, "\n")
	el := eligibleLines(lines)
	var out []string
	lineMap := make([]int, len(lines)+2)
	for i, l := range lines {
		touch := el[i] && (only < 0 || only == i)
		if touch && tr.BlankBefore && i > 0 {
			out = append(out, "")
		}
		if touch && tr.Line != nil {
			l = tr.Line(l, i)
		}
		out = append(out, l)
		lineMap[i+1] = len(out)
	}
	return strings.Join(out, "\n"), lineMap
}

// tokensEqual compares the tokenisations of the original and the transformed
// text (words, lines through lineMap, Copyright pseudo-matches).
func tokensEqual(a, b string, lineMap []int) string {
	ta, ma := vTokenizeFull([]byte(a))
	tb, mb := vTokenizeFull([]byte(b))
	if len(ta) != len(tb) {
		return fmt.Sprintf("%d words vs %d words: %v vs %v", len(ta), len(tb), vWords(ta), vWords(tb))
	}
	for i := range ta {
		if ta[i].Word != tb[i].Word {
			return fmt.Sprintf("word %d: %q vs %q", i, ta[i].Word, tb[i].Word)
		}
		if lineMap[ta[i].Line] != tb[i].Line {
			return fmt.Sprintf("word %d (%q): line %d should map to %d, got %d", i, ta[i].Word, ta[i].Line, lineMap[ta[i].Line], tb[i].Line)
		}
	}
	if len(ma) != len(mb) {
		return fmt.Sprintf("%d vs %d Copyright pseudo-matches", len(ma), len(mb))
	}
	for i := range ma {
		if lineMap[ma[i].StartLine] != mb[i].StartLine {
			return fmt.Sprintf("Copyright match line %d should map to %d, got %d", ma[i].StartLine, lineMap[ma[i].StartLine], mb[i].StartLine)
		}
	}
	return ""
}

func c05Tokens(c *vrep.Ctx) {
	syms := []string{"a", "B", "1", " ", "\t", "\n", "-", "–", "\"", "”", "/", "*", "#", ".", "(", "é", "\ufffd"}
	maxLen := c.ParamInt("maxlen", c.Pick(5, 6))
	c.R.Rule = fmt.Sprintf("tokenizer level: ALL strings of <=%d symbols over %q; for each string every transform %d kinds applied to all eligible lines; white-box comparison of (word, line) lists and Copyright pseudo-matches; non-trivial = distinct (string, transform) pairs where the transform changed the bytes and the string has at least one word", maxLen, syms, len(vTransforms))
	c.Bound("max_symbols", maxLen)
	c.Bound("transforms", len(vTransforms))
	body := func(r *vx.Run) {
		n := r.Choose(maxLen+1, "len")
		var sb strings.Builder
		for i := 0; i < n; i++ {
			sb.WriteString(syms[r.Choose(len(syms), "sym")])
		}
		if r.Scout() {
			return
		}
		s := sb.String()
		nw := len(vTokenize([]byte(s)))
		var msgs []string
		for _, tr := range vTransforms {
			t, lm := applyTransform(tr, s, -1)
			c.R.Evaluations++
			if t == s {
				continue
			}
			if nw > 0 {
				c.R.Nontrivial++
			}
			if m := tokensEqual(s, t, lm); m != "" {
				msgs = append(msgs, tr.Name+": "+m)
			}
		}
		r.Note = map[string]interface{}{"s": s, "msgs": msgs, "nw": nw}
	}
	c.Run(vSplitExplorer(c, 0, 3), body, func(r *vx.Run) {
		c.R.Evaluations--
		s := r.Note["s"].(string)
		if r.Note["nw"].(int) > 1 {
			c.Sample(map[string]interface{}{"string": s})
		}
		for _, m := range r.Note["msgs"].([]string) {
			c.Violate(fmt.Sprintf("c05_tokens:%q:%s", s, strings.SplitN(m, ":", 2)[0]), fmt.Sprintf("string %q under %s", s, m), r, m)
		}
	})
}

// matchSet renders non-Copyright matches (and Copyright lines) through a line map.
func matchSet(res Results, lineMap []int) []string {
	var out []string
	lm := func(l int) int {
		if lineMap == nil {
			return l
		}
		if l < 0 || l >= len(lineMap) {
			return -1000 - l
		}
		return lineMap[l]
	}
	for _, m := range res.Matches {
		out = append(out, fmt.Sprintf("%s/%s/%s conf=%v lines=%d-%d toks=%d-%d", m.MatchType, m.Name, m.Variant, m.Confidence,
			lm(m.StartLine), lm(m.EndLine), m.StartTokenIndex, m.EndTokenIndex))
	}
	sort.Strings(out)
	return out
}

var c05NoticeLeads = []string{
	"Al's Copyright 2001 Foo",
	"'a' Copyright 1999 X",
	"\"x\" Copyright (c) 2010 Y",
	"a-b Copyright 2003 Z",
	"'' - Copyright 2003, Z",
	"Copyright 2004 O'Neil-Smith \"the author\"",
}

func c05Match(c *vrep.Ctx) {
	t, _ := strconv.ParseFloat(c.Param("t", "0.8"), 64)
	cl := vEmbeddedCached(t)
	mode := c.Param("mode", "global") // global | perline | pairs | scenarios
	docs := vCorpusFiles()
	switch mode {
	case "perline":
		var small []vDoc
		for _, d := range docs {
			if strings.Count(string(d.Bytes), "\n") <= 30 {
				small = append(small, d)
			}
		}
		docs = small
		if !c.Thorough() && len(docs) > 12 {
			docs = docs[:12]
		}
	case "pairs":
		docs = vDocPool(c.Pick(8, 40))
	case "notices":
		docs = vDocPool(c.Pick(4, 24))
	case "quotedwords":
		docs = vDocPool(c.Pick(2, 8))
	case "prefixquote":
		docs = vDocPool(c.Pick(3, 12))
	case "longwords":
		// short documents (the long word is what varies)
		var small []vDoc
		for _, d := range vCorpusFiles() {
			if len(d.Bytes) >= 300 && len(d.Bytes) <= 1200 {
				small = append(small, d)
			}
		}
		sort.Slice(small, func(i, j int) bool { return small[i].Key < small[j].Key })
		docs = small[:c.Pick(1, 6)]
	}
	sc := vScenarioFiles()
	var scNames []string
	for n := range sc {
		scNames = append(scNames, n)
	}
	sort.Strings(scNames)
	c.R.Rule = fmt.Sprintf("Match level, mode %s: documents in OOV context x %d transform kinds (global: all eligible lines; perline: one line at a time on documents of <=30 lines; pairs: all ordered pairs of kinds; scenarios: the 41 scenario files; notices: a copyright notice with quotes / apostrophes / hyphens in its lead in front of the document; longwords: one word of every length 60..300 bytes made of quoted / hyphenated pieces before or inside the document; quotedwords: lines with every variant spelling in quotes and punctuation in front of the document; prefixquote: the document behind about 2^10..2^13 distinct words, one of two identical quoted lines in front transformed); multiset of (type, name, variant, confidence, token span, mapped lines) must be equal; non-trivial = distinct (document, transform...) cases where the untransformed input has a non-Copyright match and the transform changed the bytes", mode, len(vTransforms))
	c.Bound("documents", len(docs))
	c.Bound("mode", mode)
	body := func(r *vx.Run) {
		var base string
		var id string
		if mode == "scenarios" {
			n := scNames[r.Choose(len(scNames), "scenario")]
			base, id = string(sc[n]), "scenario:"+n
		} else {
			d := docs[r.Choose(len(docs), "doc")]
			base = vOOVBlock(2, 5, 0) + string(d.Bytes) + "\n" + vOOVBlock(1, 4, 30)
			id = d.Key
			if mode == "quotedwords" {
				// every spelling the tokenizer maps to another one, wrapped in quotes and followed by
				// punctuation (the raw word grows by two bytes per quote when the quotes become typographic)
				var sb strings.Builder
				sb.WriteString(vOOVBlock(2, 5, 0))
				for i, pr := range c06SpellingPairs() {
					fmt.Fprintf(&sb, "the \"%s\", and '%s'. (\"%s\"); %s-\"%s\"\n", pr[0], pr[1], strings.ToUpper(pr[0][:1])+pr[0][1:], vOOV(i), pr[1])
				}
				base = sb.String() + string(d.Bytes) + "\n" + vOOVBlock(1, 4, 30)
				id = d.Key + "|behind lines of quoted spellings"
			}
			if mode == "prefixquote" {
				// two identical lines with a quoted word, then a run of N pairwise different words (lines
				// of 9), then the document; ONE of the two quoted lines is transformed (a spelling more or
				// less among the words seen before the document); N lies a little below a power of two
				var ns []int
				for _, b := range []int{1024, 2048, 4096, 8192} {
					for _, k := range []int{20, 45, 90} {
						ns = append(ns, b-k)
					}
				}
				n := ns[r.Choose(len(ns), "prefix words")]
				var sb strings.Builder
				sb.WriteString(vOOVBlock(2, 5, 0))
				sb.WriteString("see the \"zqquoted\" entry of 'zqother' - twice\nsee the \"zqquoted\" entry of 'zqother' - twice\n")
				for i := 0; i < n; i++ {
					sb.WriteString(vDistinctOOV(i))
					if i%9 == 8 || i == n-1 {
						sb.WriteByte('\n')
					} else {
						sb.WriteByte(' ')
					}
				}
				base = sb.String() + string(d.Bytes) + "\n" + vOOVBlock(1, 4, 30)
				id = fmt.Sprintf("%s|behind %d distinct words", d.Key, n)
			}
			if mode == "longwords" {
				// ONE white-space free word of every length 60..300 bytes full of quotes, apostrophes and
				// hyphens (a minified manifest, an attribute list) on the line before the document or in
				// the middle of it: what the transforms put in its place is longer in bytes
				L := 60 + r.Choose(241, "word length")
				where := r.Choose(2, "before / inside")
				unit := []string{`"ab":"cd",`, `a-"b"-c'd'`, `x='y-z';`}[r.Choose(c.Pick(2, 3), "pattern")]
				w := strings.Repeat(unit, L/len(unit)+1)[:L-1] + "e"
				if where == 0 {
					base = vOOVBlock(2, 5, 0) + w + "\n" + string(d.Bytes) + "\n" + vOOVBlock(1, 4, 30)
				} else {
					f := strings.Fields(string(d.Bytes))
					k := len(f) / 3
					base = vOOVBlock(2, 5, 0) + strings.Join(f[:k], " ") + " " + w + " " + strings.Join(f[k:], " ") + "\n" + vOOVBlock(1, 4, 30)
				}
				id = fmt.Sprintf("%s|%d-byte word of %q %s", d.Key, L, unit, []string{"before", "inside"}[where])
			}
			if mode == "notices" {
				// a copyright notice whose short lead contains what the transforms replace (quotes,
				// apostrophes, hyphens) in front of the document
				n := c05NoticeLeads[r.Choose(len(c05NoticeLeads), "notice")]
				base = vOOVBlock(2, 5, 0) + n + "\n" + string(d.Bytes) + "\n" + vOOVBlock(1, 4, 30)
				id = fmt.Sprintf("%s|notice %q", d.Key, n)
			}
		}
		var trs []vTransform
		only := -1
		tr := vTransforms[r.Choose(len(vTransforms), "kind")]
		trs = append(trs, tr)
		id += "|" + tr.Name
		if mode == "pairs" {
			tr2 := vTransforms[r.Choose(len(vTransforms), "kind2")]
			trs = append(trs, tr2)
			id += "+" + tr2.Name
		}
		if mode == "perline" {
			nl := strings.Count(base, "\n") + 1
			only = r.Choose(nl, "line")
			id += fmt.Sprintf("@line%d", only)
		}
		if mode == "prefixquote" {
			only = 2 + r.Choose(2, "which quoted line")
			id += fmt.Sprintf("@line%d", only)
		}
		if r.Scout() {
			return
		}
		cur := base
		lineMap := []int(nil)
		for _, tr := range trs {
			next, lm := applyTransform(tr, cur, only)
			if lineMap == nil {
				lineMap = lm
			} else {
				comp := make([]int, len(lineMap))
				for i, v := range lineMap {
					if v < len(lm) {
						comp[i] = lm[v]
					}
				}
				lineMap = comp
			}
			cur = next
		}
		if cur == base {
			r.Note = map[string]interface{}{"same": true}
			return
		}
		r0 := cl.Match([]byte(base))
		r1 := cl.Match([]byte(cur))
		want := matchSet(r0, lineMap)
		got := matchSet(r1, nil)
		msg := ""
		if strings.Join(want, "\n") != strings.Join(got, "\n") {
			msg = fmt.Sprintf("original %v, transformed %v; first token difference: %s", want, got, tokensEqual(base, cur, lineMap))
		}
		if mode == "quotedwords" && msg == "" {
			// the lines in front of the document are not part of any match: compare the words themselves
			if d := tokensEqual(base, cur, lineMap); d != "" {
				msg = "the (word, line) sequences differ: " + d
			}
		}
		nm := 0
		for _, m := range r0.Matches {
			if m.MatchType != "Copyright" {
				nm++
			}
		}
		r.Note = map[string]interface{}{"id": id, "msg": msg, "nm": nm}
	}
	c.Run(vSplitExplorer(c, 0, 2), body, func(r *vx.Run) {
		if r.Note["same"] != nil {
			return
		}
		id := r.Note["id"].(string)
		if r.Note["nm"].(int) > 0 {
			c.Nontrivial(id)
			c.Sample(map[string]interface{}{"case": id})
		}
		if m := r.Note["msg"].(string); m != "" {
			c.Violate("c05_match:"+mode+":"+id, id+": "+m, r, m)
		} else {
			c.Outcome("same")
		}
	})
}
