//go:build verif && go1.21

package classifier

import (
	"bytes"
	"errors"
	"fmt"
	"io"
	"strings"

	"verifh/vrep"
	"verifh/vx"
)

// C08: streaming input equals in-memory input; reader faults surface as errors.
// Every answer of the io.Reader is a choice point of the explorer.

func init() {
	vRegister("c08_chunks", c08Chunks)
	vRegister("c08_pads", c08Pads)
	vRegister("c08_faults", c08Faults)
	vRegister("c08_stutter", c08Stutter)
}

var errC08 = errors.New("verif: injected reader failure")

// a failure that WRAPS io.EOF (the body of a response cut short, reported by a layer that adds
// context): only the bare io.EOF means "end of input" to a reader's caller
var errC08WrapsEOF = fmt.Errorf("verif: read response body: %w", io.EOF)

// c08Reader is the environment: a reader whose Read answers are decided by
// the explorer (deviations from the default policy cost budget).
type c08Reader struct {
	data     []byte
	pos      int
	run      *vx.Run
	chunk    int   // default answer size (0: as much as fits)
	eofWith  bool  // deliver the last data together with io.EOF
	deviate  bool  // ask the explorer for short-read deviations
	failAt   int   // fail once this many bytes were delivered (-1: never)
	failWith bool  // return the error together with the last data before failAt
	failErr  error // the error to fail with (nil: errC08)
	reads    int
}

func (r *c08Reader) failure() error {
	if r.failErr != nil {
		return r.failErr
	}
	return errC08
}

func (r *c08Reader) Read(p []byte) (int, error) {
	r.reads++
	if len(p) == 0 {
		return 0, nil
	}
	rem := len(r.data) - r.pos
	if r.failAt >= 0 && r.pos >= r.failAt {
		return 0, r.failure()
	}
	if r.failAt >= 0 && r.failAt-r.pos < rem {
		rem = r.failAt - r.pos
	}
	if rem == 0 {
		return 0, io.EOF
	}
	n := rem
	if r.chunk > 0 && r.chunk < n {
		n = r.chunk
	}
	if len(p) < n {
		n = len(p)
	}
	if r.deviate {
		// default: n bytes. deviations: 0 bytes (nil error), 1..5 bytes
		switch k := r.run.Deviate(7, "read-answer"); {
		case k == 1:
			return 0, nil
		case k >= 2:
			if k-1 < n {
				n = k - 1
			}
		}
	}
	copy(p, r.data[r.pos:r.pos+n])
	r.pos += n
	if r.failAt >= 0 && r.pos >= r.failAt && r.failWith {
		return n, r.failure()
	}
	if r.pos == len(r.data) && r.eofWith && r.failAt < 0 {
		return n, io.EOF
	}
	return n, nil
}

// c08Classifier: a handful of embedded documents (fast Match, real texts).
// c08Trace (job parameter trace=all): every phase of every license traced to a no-op tracer.
var c08Trace bool

func c08Classifier() (*Classifier, []vDoc) {
	cl := NewClassifier(0.8)
	if c08Trace {
		cl.SetTraceConfiguration(&TraceConfiguration{TraceLicenses: "*", TracePhases: "*", Tracer: func(string, ...interface{}) {}})
	}
	var docs []vDoc
	for _, d := range c01PoolDocs() {
		if len(d.Bytes) < 12000 {
			cl.AddContent(d.Category, d.Name, d.Variant, d.Bytes)
			docs = append(docs, d)
		}
	}
	cl.AddContent("License", "Small", "license.txt", []byte("aa bb cc aa bb"))
	return cl, docs
}

// c08Inputs: texts rich in 2/3/4-byte runes, invalid bytes, HTML entities and
// hyphenated line breaks, each containing a matchable license.
func c08Inputs(docs []vDoc, n int) [][]byte {
	spice := []string{"é", "世", "—", "\xff", "\xc3", "\xf0\x9f\x98\x80", "&amp;", "©", "\xe2\x80", "·"}
	var out [][]byte
	for i := 0; len(out) < n; i++ {
		d := docs[i%len(docs)]
		words := strings.SplitAfter(string(d.Bytes), " ")
		var sb strings.Builder
		sb.WriteString("zqaxav ")
		for j, w := range words {
			sb.WriteString(w)
			if (j+i)%5 == 0 {
				sb.WriteString(spice[(j/5+i)%len(spice)])
				if (j+i)%10 == 0 {
					sb.WriteByte(' ')
				}
			}
		}
		sb.WriteString("\nzqbxav tail")
		b := []byte(sb.String())
		if i >= len(docs) {
			// variants: hyphenated line breaks and CRLF
			b = []byte(strings.ReplaceAll(string(b), ". ", ".\r\n"))
		}
		out = append(out, b)
	}
	out = append(out, []byte("zqa aa bb cc aa bb zqb"), []byte("é aa bb cc aa bb 世"), nil, []byte("\xff"))
	// mixed line terminators: LF, CRLF, a lone CR and LF CR in turn (a reader boundary can fall
	// between any two of these bytes)
	ls := strings.Split("zqaxav head\n"+string(docs[0].Bytes), "\n")
	var mixed strings.Builder
	for i, l := range ls {
		mixed.WriteString(l)
		mixed.WriteString([]string{"\n", "\r\n", "\r", "\n\r", "\n"}[i%5])
	}
	out = append(out, []byte(mixed.String()))
	return out
}

// c08PadExtras: inputs for the pad sweep that depend on tokenizer-internal sizes - a text that
// ends in a truncated multi-byte sequence directly after the last license word (with many 2-byte
// runes earlier, so that whatever is left in the read buffer behind the data is a continuation
// byte for some pad widths), and a text with more distinct words than any shipped document
// (internal tables that are bounded or rebuilt at some size).
func c08PadExtras(docs []vDoc) [][]byte {
	d := docs[0]
	body := strings.TrimRight(string(d.Bytes), " \t\r\n")
	trunc := strings.Repeat("\u00e9 ", 400) + "\n" + body + "\xc3"
	// the same with the small user document: what sits about one buffer length before the end of the
	// input is the run of 2-byte runes
	trunc2 := "zqaxav\n" + strings.Repeat("\u00e9 ", 420) + "\naa bb cc aa bb\xc3"
	out := [][]byte{[]byte(trunc), []byte(trunc2)}
	// distinct-word counts just below powers of two (and a few round numbers), so that the license
	// text itself crosses the next boundary: internal tables that are bounded, rebuilt or re-encoded
	// at some size
	for _, n := range []int{206, 462, 950, 974, 1998, 4046, 4950, 8142, 9950, 16334, 32718, 55250, 65486} {
		var sb strings.Builder
		for i := 0; i < n; i++ {
			sb.WriteString("v" + string(rune('a'+i%26)) + string(rune('a'+(i/26)%26)) + string(rune('a'+(i/676)%26)) + string(rune('a'+(i/17576)%26)) + "q")
			if i%11 == 10 {
				sb.WriteByte('\n')
			} else {
				sb.WriteByte(' ')
			}
		}
		out = append(out, []byte(sb.String()+"\n"+string(d.Bytes)+"\nzqbxav tail"))
	}
	return out
}

func c08Chunks(c *vrep.Ctx) {
	c08Trace = c.Param("trace", "off") == "all"
	cl, docs := c08Classifier()
	inputs := c08Inputs(docs, c.ParamInt("inputs", c.Pick(3, 10)))
	chunks := []int{0, 1, 2, 3, 4, 5, 6, 7, 8, 9, 1019, 1020, 1021, 1022, 1023, 1024, 1025, 4096}
	budget := c.ParamInt("deviations", c.Pick(2, 3))
	c.R.Rule = fmt.Sprintf("reader answers as choice points: %d inputs (multi-byte runes, invalid UTF-8, entities) x default chunk sizes %v x {EOF alone, EOF with the last data} x up to %d deviating Read answers (0 bytes with nil error, or a short read of 1..5 bytes) at any Read call; MatchFrom must equal Match on the same bytes; non-trivial = distinct (input, policy, deviation list) executions whose result has a match", len(inputs), chunks, budget)
	c.Bound("deviation_bound", budget)
	c.Bound("inputs", len(inputs))
	want := make([]string, len(inputs))
	for i, in := range inputs {
		want[i] = vFmt(cl.Match(in))
	}
	body := func(r *vx.Run) {
		ii := r.Choose(len(inputs), "input")
		ch := chunks[r.Choose(len(chunks), "chunk")]
		eofWith := r.Choose(2, "eof-with-data") == 1
		if r.Scout() {
			return
		}
		// deviations only make sense against the big default chunks (small chunks already fragment everything)
		rd := &c08Reader{data: inputs[ii], run: r, chunk: ch, eofWith: eofWith, deviate: ch == 0 || ch >= 1019, failAt: -1}
		var got string
		msg := vPanics(func() {
			res, err := cl.MatchFrom(rd)
			if err != nil {
				got = "error: " + err.Error()
				return
			}
			got = vFmt(res)
		})
		if msg != "" {
			got = "panic: " + msg
		}
		r.Note = map[string]interface{}{"input": ii, "chunk": ch, "eof": eofWith, "got": got, "reads": rd.reads, "obs": got}
	}
	c.Run(vSplitExplorer(c, budget, 3), body, func(r *vx.Run) {
		ii := r.Note["input"].(int)
		got := r.Note["got"].(string)
		id := fmt.Sprintf("in%d chunk%v eof%v choices%v", ii, r.Note["chunk"], r.Note["eof"], r.Choices[3:])
		if strings.Contains(want[ii], " | ") {
			c.Nontrivial(id)
		}
		if r.Spent() > 0 {
			c.Sample(map[string]interface{}{"input_bytes": len(inputs[ii]), "default_chunk": r.Note["chunk"], "eof_with_data": r.Note["eof"], "read_answers": r.Choices[3:], "reads": r.Note["reads"]})
		}
		c.Outcome(got)
		if got != want[ii] {
			c.Violate("c08_chunks:"+strings.ReplaceAll(id, " ", "_"), fmt.Sprintf("%s: MatchFrom gave %s, Match gave %s", id, got, want[ii]), r, got)
		}
	})
}

// c08LongWords: the first license with ONE run of non-space bytes in its middle that is longer than
// the usual powers of two by a few hundred bytes (a base64 blob, a minified line): where the read
// buffer's boundaries fall inside the run depends on the pad width
func c08LongWords(docs []vDoc) [][]byte {
	w := strings.Fields(string(docs[0].Bytes))
	var out [][]byte
	for _, n := range []int{1500, 2600, 4600, 8700, 16900, 33300, 66000} {
		var sb strings.Builder
		for i := 0; sb.Len() < n; i++ {
			sb.WriteString("QmFzZTY0IGJsb2IgZm9yIHRoZSBwYWQgc3dlZXA"[i%7 : 20+i%13])
		}
		mid := len(w) / 2
		out = append(out, []byte(strings.Join(w[:mid], " ")+"\n"+sb.String()[:n]+" "+strings.Join(w[mid:], " ")+"\n"))
	}
	return out
}

func c08Pads(c *vrep.Ctx) {
	c08Trace = c.Param("trace", "off") == "all"
	cl, docs := c08Classifier()
	inputs := c08Inputs(docs, c.Pick(3, 10))
	nfull := len(inputs) + 2 // the ordinary inputs and the two truncated ones get every pad width
	extras := c08PadExtras(docs)
	long := c08LongWords(docs)
	nfull += len(long) // and so do the texts with one overlong word
	inputs = append(inputs, extras[:2]...)
	inputs = append(inputs, long...)
	inputs = append(inputs, extras[2:]...)
	if !c.Thorough() {
		inputs = inputs[:len(inputs)-2] // 55 250 and 65 486 distinct words: thorough tier
	}
	// the large-vocabulary inputs get pad widths around the buffer boundaries only
	fewPads := []int{0, 1, 2, 3, 4, 5, 6, 7, 509, 510, 511, 512, 513, 1017, 1018, 1019, 1020, 1021, 1022, 1023, 1024, 1025, 2040, 2041}
	maxPad := 2*1024 + 8
	c.R.Rule = fmt.Sprintf("every pad width 0..%d of leading spaces x %d inputs (incl. one ending in a truncated multi-byte sequence right after the last license word, the first license with one word of 1500..66 000 bytes in its middle, and texts with 206..65 486 distinct words before the license, at 24 pad widths around the buffer boundaries) (so that every multi-byte rune and invalid byte crosses the 1020/1024 buffer boundary in every phase); Match(pad+input) must equal Match(input) in every field; non-trivial = distinct (input, pad) cases whose result has a match", maxPad, len(inputs))
	c.Bound("max_pad", maxPad)
	c.Bound("inputs", len(inputs))
	want := make([]string, len(inputs))
	for i, in := range inputs {
		want[i] = vFmt(cl.Match(in))
	}
	body := func(r *vx.Run) {
		ii := r.Choose(len(inputs), "input")
		pad := 0
		if ii < nfull {
			pad = r.Choose(maxPad+1, "pad")
		} else {
			pad = fewPads[r.Choose(len(fewPads), "pad")]
		}
		in := append([]byte(strings.Repeat(" ", pad)), inputs[ii]...)
		got := ""
		if msg := vPanics(func() { got = vFmt(cl.Match(in)) }); msg != "" {
			got = "panic: " + msg
		}
		r.Note = map[string]interface{}{"input": ii, "pad": pad, "got": got}
	}
	c.Run(vSplitExplorer(c, 0, 2), body, func(r *vx.Run) {
		ii := r.Note["input"].(int)
		id := fmt.Sprintf("in%d pad%d", ii, r.Note["pad"])
		if strings.Contains(want[ii], " | ") {
			c.Nontrivial(id)
		}
		if r.Note["pad"].(int)%500 == 7 {
			c.Sample(map[string]interface{}{"input_bytes": len(inputs[ii]), "pad": r.Note["pad"]})
		}
		if got := r.Note["got"].(string); got != want[ii] {
			c.Violate("c08_pads:"+strings.ReplaceAll(id, " ", "_"), fmt.Sprintf("%s: padded %s, unpadded %s", id, got, want[ii]), r, got)
		}
	})
}

func c08Faults(c *vrep.Ctx) {
	c08Trace = c.Param("trace", "off") == "all"
	cl, docs := c08Classifier()
	switch c.Param("corpus", "") {
	case "empty":
		// a classifier without any document (NewClassifier alone; LoadLicenses of a directory without
		// license files): nothing can match, a reader fault is a fault all the same
		cl = NewClassifier(0.8)
	case "one-empty-document":
		cl = NewClassifier(0.8)
		cl.AddContent("License", "Empty", "license.txt", nil)
	}
	all := c08Inputs(docs, c.Pick(2, 6))
	var inputs [][]byte
	for _, in := range all {
		if len(in) > 3000 {
			in = in[:3000]
		}
		inputs = append(inputs, in)
	}
	chunks := []int{0, 1, 1021}
	wantOK := make([]string, len(inputs))
	for i, in := range inputs {
		wantOK[i] = vFmt(cl.Match(in))
	}
	probe := []byte("zqa aa bb cc aa bb zqb")
	wantProbe := vFmt(cl.Match(probe))
	c.R.Rule = fmt.Sprintf("failure injection: %d inputs (<=3000 bytes) x EVERY failure offset k in 0..len(input) x default chunk sizes %v x {error alone, error together with the last data} x {a private error, io.ErrUnexpectedEOF, an error that wraps io.EOF}; MatchFrom must return the injected error and zero Results, never a panic or partial matches, and the next Match of the same text and MatchFrom of a short text on the same classifier return what they returned before the fault; non-trivial = distinct (input, offset, policy) executions", len(inputs), chunks)
	c.Bound("inputs", len(inputs))
	body := func(r *vx.Run) {
		ii := r.Choose(len(inputs), "input")
		k := r.Choose(len(inputs[ii])+1, "fail-offset")
		ch := chunks[r.Choose(len(chunks), "chunk")]
		with := r.Choose(2, "error-with-data") == 1
		// the injected error: a private one, or io.ErrUnexpectedEOF as a reader of a truncated
		// compressed stream reports it (a non-EOF failure that the io package itself also produces)
		ferr := []error{errC08, io.ErrUnexpectedEOF, errC08WrapsEOF}[r.Choose(3, "error-kind")]
		rd := &c08Reader{data: inputs[ii], run: r, chunk: ch, failAt: k, failWith: with, failErr: ferr}
		msg := vPanics(func() {
			res, err := cl.MatchFrom(rd)
			if err != ferr {
				panic(fmt.Sprintf("returned error %v, want the injected one", err))
			}
			if len(res.Matches) != 0 || res.TotalInputLines != 0 {
				panic("returned partial results together with the error: " + vFmt(res))
			}
		})
		if msg == "" {
			// nothing of the aborted call may survive it: the very next calls on the same classifier
			// return what they return on a classifier that never saw the fault
			if got := vFmt(cl.Match(inputs[ii])); got != wantOK[ii] {
				msg = fmt.Sprintf("after the failed MatchFrom, Match of the same text returned %s, before it %s", got, wantOK[ii])
			} else if res, err := cl.MatchFrom(bytes.NewReader(probe)); err != nil || vFmt(res) != wantProbe {
				msg = fmt.Sprintf("after the failed MatchFrom, MatchFrom of a short text returned %s (%v), before it %s", vFmt(res), err, wantProbe)
			}
		}
		r.Note = map[string]interface{}{"id": fmt.Sprintf("in%d fail@%d chunk%d with%v err=%v", ii, k, ch, with, ferr), "msg": msg}
	}
	c.Run(vSplitExplorer(c, 0, 2), body, func(r *vx.Run) {
		id := r.Note["id"].(string)
		c.Nontrivial(id)
		if c.R.Evaluations%997 == 3 {
			c.Sample(id)
		}
		if m := r.Note["msg"].(string); m != "" {
			c.Violate("c08_faults:"+strings.ReplaceAll(id, " ", "_"), id+": "+m, r, m)
		}
	})
}

// c08Stutter: readers that answer (0, nil) - allowed by io.Reader - a given NUMBER of times over one
// call, spread evenly between data reads of a fixed size: every total 0..N x chunk sizes.
type c08StutterReader struct {
	data          []byte
	chunk         int
	empties, left int // empty answers in total / still to give
	reads, total  int // data reads done / needed
}

func (r *c08StutterReader) Read(p []byte) (int, error) {
	if len(p) == 0 {
		return 0, nil
	}
	// empty answers due before data read number r.reads: floor((reads+1)*empties/total) in all
	due := r.empties
	if r.total > 0 && r.reads < r.total {
		due = (r.reads + 1) * r.empties / r.total
	}
	if given := r.empties - r.left; given < due {
		r.left--
		return 0, nil
	}
	if len(r.data) == 0 {
		return 0, io.EOF
	}
	n := r.chunk
	if n > len(p) {
		n = len(p)
	}
	if n > len(r.data) {
		n = len(r.data)
	}
	copy(p, r.data[:n])
	r.data = r.data[n:]
	r.reads++
	return n, nil
}

func c08Stutter(c *vrep.Ctx) {
	c08Trace = false
	cl, docs := c08Classifier()
	inputs := c08Inputs(docs, c.Pick(2, 6))
	chunks := []int{1, 7, 64, 1024}
	maxEmpty := c.Pick(300, 1200)
	c.R.Rule = fmt.Sprintf("%d inputs x data reads of %v bytes x EVERY total number 0..%d of (0, nil) answers spread evenly between the data reads: MatchFrom must return no error and exactly Match's result; non-trivial = cases whose result has a match", len(inputs), chunks, maxEmpty)
	c.Bound("max_empty_answers", maxEmpty)
	want := make([]string, len(inputs))
	for i, in := range inputs {
		want[i] = vFmt(cl.Match(in))
	}
	body := func(r *vx.Run) {
		ii := r.Choose(len(inputs), "input")
		ch := chunks[r.Choose(len(chunks), "chunk")]
		if r.Scout() {
			return
		}
		ne := r.Choose(maxEmpty+1, "empty answers")
		rd := &c08StutterReader{data: inputs[ii], chunk: ch, empties: ne, left: ne, total: (len(inputs[ii]) + ch - 1) / ch}
		got := ""
		if msg := vPanics(func() {
			res, err := cl.MatchFrom(rd)
			got = vFmt(res)
			if err != nil {
				got = "error: " + err.Error()
			}
		}); msg != "" {
			got = "panic: " + msg
		}
		r.Note = map[string]interface{}{"id": fmt.Sprintf("in%d chunk%d empty%d", ii, ch, ne), "input": ii, "got": got}
	}
	c.Run(vSplitExplorer(c, 0, 2), body, func(r *vx.Run) {
		ii := r.Note["input"].(int)
		id := r.Note["id"].(string)
		if strings.Contains(want[ii], " | ") {
			c.Nontrivial(id)
		}
		if got := r.Note["got"].(string); got != want[ii] {
			c.Violate("c08_stutter:"+strings.ReplaceAll(id, " ", "_"), fmt.Sprintf("%s: MatchFrom gives %s, Match %s", id, got, want[ii]), r, got)
		}
	})
}

// c08Short: small corpora whose ONLY (or shortest) document is long in bytes because of a few very
// long words; inputs are that document with every single word and every pair of words deleted or
// replaced by a one-letter word (few bytes left, most of the words still there). MatchFrom, Match
// and Match behind 100 blanks must agree: nothing may depend on the byte length of the input,
// which only Match knows in advance.
func init() { vRegister("c08_short", c08Short) }

func c08Short(c *vrep.Ctx) {
	docs := []string{
		"permission to use this software is granted under the terms published at https://www.example.org/licenses/very/long/path/to/the/license/text/version-2.0.html and mirrored at https://mirror.example.net/another/extremely/long/location/of/the/same/license/text.html provided that this notice stays",
		"aa bb cc dd ee ff gg hh ii jj kk ll mm nn oo pp qq rr ss tt supercalifragilisticexpialidociousnessandthensomemorelettersjusttobesure antidisestablishmentarianismantidisestablishmentarianism",
	}
	ts := []float64{0.5, 0.8, 0.9}
	type cfg struct {
		cl *Classifier
		t  float64
		d  int
	}
	var cfgs []cfg
	for di, d := range docs {
		for _, t := range ts {
			cl := NewClassifier(t)
			cl.AddContent("License", fmt.Sprintf("Long%d", di), "license.txt", []byte(d))
			cfgs = append(cfgs, cfg{cl, t, di})
		}
	}
	c.R.Rule = fmt.Sprintf("%d one-document corpora (a 30-word text with two 80-byte URLs; 20 two-letter words + two 70-byte words) x thresholds %v x the document with EVERY single word and EVERY pair of words deleted / replaced by a one-letter word: MatchFrom (one read, and 7-byte reads), Match and Match behind 100 blanks must return the same Results; non-trivial = cases with a match", len(docs), ts)
	body := func(r *vx.Run) {
		ci := r.Choose(len(cfgs), "corpus")
		cf := cfgs[ci]
		w := strings.Fields(docs[cf.d])
		a := r.Choose(len(w), "first word")
		b := a + r.Choose(len(w)-a, "second word (= first: single)")
		kind := r.Choose(2, "delete / replace")
		ws := append([]string(nil), w...)
		for _, p := range []int{a, b} {
			if kind == 0 {
				ws[p] = ""
			} else {
				ws[p] = "x"
			}
		}
		in := []byte(strings.Join(strings.Fields(strings.Join(ws, " ")), " "))
		m := vFmt(cf.cl.Match(in))
		msg := ""
		r1, err := cf.cl.MatchFrom(bytes.NewReader(in))
		if got := vFmt(r1); got != m || err != nil {
			msg = fmt.Sprintf("MatchFrom gives %s (err %v), Match %s", got, err, m)
		}
		r2, err := cf.cl.MatchFrom(&c08StutterReader{data: in, chunk: 7, total: (len(in) + 6) / 7})
		if got := vFmt(r2); (got != m || err != nil) && msg == "" {
			msg = fmt.Sprintf("MatchFrom with 7-byte reads gives %s (err %v), Match %s", got, err, m)
		}
		if got := vFmt(cf.cl.Match(append([]byte(strings.Repeat(" ", 100)), in...))); got != m && msg == "" {
			msg = fmt.Sprintf("Match behind 100 blanks gives %s, Match %s", got, m)
		}
		r.Note = map[string]interface{}{"id": fmt.Sprintf("doc%d T=%v words %d,%d %s", cf.d, cf.t, a, b, []string{"deleted", "replaced"}[kind]), "msg": msg, "nt": strings.Contains(m, " | ")}
	}
	c.Run(vSplitExplorer(c, 0, 2), body, func(r *vx.Run) {
		id := r.Note["id"].(string)
		if r.Note["nt"].(bool) {
			c.Nontrivial(id)
		}
		if m := r.Note["msg"].(string); m != "" {
			c.Violate("c08_short:"+strings.ReplaceAll(id, " ", "_"), id+": "+m, r, m)
		}
	})
}
