//go:build verif && go1.21

package classifier

import (
	"bytes"
	"fmt"
	"sort"
	"strconv"
	"strings"

	"verifh/vrep"
	"verifh/vx"
)

// C11: Normalize output lines up with Match positions and matches the same.

func init() {
	vRegister("c11_tokens", c11Tokens)
	vRegister("c11_match", c11Match)
}

// c11Align: the k-th line of Normalize(in) holds the words Match attributes
// to line k of in.
func c11Align(in, norm []byte) string {
	a := vTokenize(in)
	b := vTokenize(norm)
	n := len(a)
	if len(b) < n {
		n = len(b)
	}
	for i := 0; i < n; i++ {
		if a[i].Word != b[i].Word {
			return fmt.Sprintf("word %d: original %q (line %d), normalized %q (line %d)", i, a[i].Word, a[i].Line, b[i].Word, b[i].Line)
		}
		if a[i].Line != b[i].Line {
			return fmt.Sprintf("word %d %q: line %d in the original, line %d in the normalized text", i, a[i].Word, a[i].Line, b[i].Line)
		}
	}
	if len(a) != len(b) {
		return fmt.Sprintf("original has %d words, normalized text %d", len(a), len(b))
	}
	return ""
}

// c11Class names the known deviation a failing case falls under, judged from the normalized
// text the first pass produced ("" = none): Normalize writes CLEANED tokens, and re-reading
// cleaned text is not idempotent in three ways.
func c11Class(in, norm []byte) string {
	for _, l := range strings.Split(string(norm), "\n") {
		f := strings.Fields(l)
		// the mechanism: a NUMBER token keeps its trailing '-' and ends a line of the normalized text
		if len(f) > 0 && strings.HasSuffix(f[len(f)-1], "-") && f[len(f)-1][0] >= '0' && f[len(f)-1][0] <= '9' {
			return "cleaned-number-keeps-trailing-hyphen"
		}
	}
	// the mechanism: a word as Match sees it (cleaned and rewritten once) still contains "https",
	// so tokenising the normalized text rewrites it a second time
	for _, w := range vTokenize(in) {
		if strings.Contains(w.Word, "https") {
			return "cleaned-token-contains-https"
		}
	}
	// the mechanism: a line that is NOT a notice as written becomes one once its words are cleaned
	// (Normalize keeps the line numbering, so line i of the normalized text is line i of the input)
	raw := strings.Split(string(in), "\n")
	for i, l := range strings.Split(string(norm), "\n") {
		if refIsNoticeLine(l) && i < len(raw) && !refIsNoticeLine(raw[i]) {
			return "line-matches-notice-only-after-cleaning"
		}
	}
	return ""
}

var c11Syms = []string{"ab", "Ab", "1.", "a.", "A.", "x-\n", "\n", "copyright 2000 x\n", "copyright 2000 y-\n", "https://a.b", "http://s.a", "Https://a.b", "HTTPS://A.B", "&#65;b", "\u0130.", "\u212a.", "1-", "(c)", "&amp;", "zqoov", "2.0", "licence", "IV.", "b)", "-", "(\u30e9\u30a4)", "&quot;\u8bb8\u53ef&quot;", "\u65e5\u672c"}

func c11Build(seq []int) []byte {
	var sb strings.Builder
	for _, s := range seq {
		sym := c11Syms[s]
		sb.WriteString(sym)
		if !strings.HasSuffix(sym, "\n") {
			sb.WriteByte(' ')
		}
	}
	return []byte(sb.String())
}

func c11TokFails(seq []int) string {
	in := c11Build(seq)
	cl := NewClassifier(0.8)
	norm := cl.Normalize(in)
	return c11Align(in, norm)
}

// c11Reduce deletes symbols while the case keeps failing (ddmin, one symbol
// at a time to a fixpoint) and returns the minimal failing sequence.
func c11Reduce(seq []int) []int {
	cur := append([]int(nil), seq...)
	for changed := true; changed; {
		changed = false
		for i := 0; i < len(cur); i++ {
			cand := append(append([]int(nil), cur[:i]...), cur[i+1:]...)
			if len(cand) > 0 && c11TokFails(cand) != "" {
				cur = cand
				changed = true
				break
			}
		}
	}
	return cur
}

func c11Tokens(c *vrep.Ctx) {
	maxLen := c.Pick(4, 5)
	c.R.Rule = fmt.Sprintf("tokenizer level: all sequences of <=%d token classes over %q (blank separated); Normalize output re-tokenised must give the same (word, line) list as the original; a failing sequence is reduced by deleting symbols while it keeps failing and keyed by the minimal failing sequence; non-trivial = distinct sequences with at least one word", maxLen, c11Syms)
	c.Bound("max_symbols", maxLen)
	body := func(r *vx.Run) {
		n := 1 + r.Choose(maxLen, "len")
		seq := make([]int, n)
		for i := range seq {
			seq[i] = r.Choose(len(c11Syms), "sym")
		}
		if r.Scout() {
			return
		}
		in := c11Build(seq)
		msg := c11TokFails(seq)
		key := ""
		if msg != "" {
			min := c11Reduce(seq)
			key = fmt.Sprintf("c11_tokens:min:%q", string(c11Build(min)))
			if cls := c11Class(c11Build(min), NewClassifier(0.8).Normalize(c11Build(min))); cls != "" {
				key = "c11:class:" + cls
			}
		}
		r.Note = map[string]interface{}{"in": string(in), "msg": msg, "key": key, "nw": len(vTokenize(in))}
	}
	c.Run(vSplitExplorer(c, 0, 3), body, func(r *vx.Run) {
		in := r.Note["in"].(string)
		if r.Note["nw"].(int) > 0 {
			c.Nontrivial(in)
			if r.Note["nw"].(int) > 2 {
				c.Sample(map[string]interface{}{"input": in})
			}
		}
		if m := r.Note["msg"].(string); m != "" {
			c.Violate(r.Note["key"].(string), fmt.Sprintf("input %q: %s (minimal failing form in key)", in, m), r, m)
		} else {
			c.Outcome("aligned")
		}
	})
}

func c11Match(c *vrep.Ctx) {
	t, _ := strconv.ParseFloat(c.Param("t", "0.8"), 64)
	cl := vEmbeddedCached(t)
	shared := c.Param("shared", "no") == "yes"
	if shared {
		// Normalize runs on the SAME classifier that matches (it interns the words it sees in the
		// classifier's dictionary): a private instance, so that other jobs are not affected
		cl = vEmbedded(t)
		// and its history starts with ONE large text of 3 000 words the dictionary has never seen
		var sb strings.Builder
		for i := 0; i < 3000; i++ {
			fmt.Fprintf(&sb, "Zqbig%c%c%c ", 'a'+i%26, 'a'+(i/26)%26, 'a'+i/676)
			if i%10 == 9 {
				sb.WriteByte('\n')
			}
		}
		cl.Normalize([]byte(sb.String()))
	}
	docs := vCorpusFiles()
	fams := strings.Split(c.Param("families", "exact,scenario,concat"), ",")
	c.R.Rule = fmt.Sprintf("Match level: every embedded document in OOV context, the scenario files and pool concatenations (families %v): (1) Normalize(in) re-tokenised gives the (word, line) list of in, (2) Match(Normalize(in)) equals Match(in) without Copyright pseudo-matches (names, variants, confidences, token spans, lines); non-trivial = distinct inputs with a license match", fams)
	c.Bound("documents", len(docs))
	body := func(r *vx.Run) {
		cs := vChooseCorpusCase(r, docs, fams)
		if r.Scout() {
			return
		}
		in := cs.In
		if cs.Base != "" {
			in = []byte(vOOVBlock(2, 5, 0) + string(cs.In) + "\n" + vOOVBlock(1, 4, 30))
		}
		// Normalize on a separate instance: its only input is the text, and it
		// must not pollute the dictionary of the classifier used for Match.
		nc := NewClassifier(t)
		if shared {
			nc = cl
		}
		norm := nc.Normalize(in)
		var msgs []string
		// what Normalize returned belongs to the caller: a further call (another text, here also another
		// classifier) must not change it
		normKeep := append([]byte(nil), norm...)
		nc.Normalize([]byte("zqother words of a second text\nthat is normalized afterwards"))
		NewClassifier(t).Normalize([]byte("zqthird text"))
		if !bytes.Equal(norm, normKeep) {
			msgs = append(msgs, fmt.Sprintf("the slice returned by Normalize changed during a later Normalize call: was %.80q, is %.80q", normKeep, norm))
			norm = normKeep
		}
		if m := c11Align(in, norm); m != "" {
			msgs = append(msgs, "alignment: "+m)
		}
		r0 := cl.Match(in)
		r1 := cl.Match(norm)
		if shared {
			// and the original text still matches as it did on a classifier without this history
			if a, b := vFmt(vEmbeddedCached(t).Match(in)), vFmt(r0); a != b {
				msgs = append(msgs, fmt.Sprintf("after Normalize calls on this classifier the ORIGINAL text matches as %s, on a fresh classifier as %s", b, a))
			}
		}
		lic := func(res Results) []string {
			var out []string
			for _, m := range res.Matches {
				if m.MatchType != "Copyright" {
					out = append(out, vFmtMatch(m))
				}
			}
			sort.Strings(out)
			return out
		}
		w, g := lic(r0), lic(r1)
		if strings.Join(w, "\n") != strings.Join(g, "\n") {
			msgs = append(msgs, fmt.Sprintf("Match(Normalize(in)) differs: original %v, normalized %v", w, g))
		}
		r.Note = map[string]interface{}{"id": cs.ID, "msgs": msgs, "nm": len(w), "class": c11Class(in, norm)}
	}
	c.Run(vSplitExplorer(c, 0, c.ParamInt("split", 2)), body, func(r *vx.Run) {
		id := r.Note["id"].(string)
		if r.Note["nm"].(int) > 0 {
			c.Nontrivial(id)
			c.Sample(map[string]interface{}{"case": id})
		}
		if ms := r.Note["msgs"].([]string); len(ms) > 0 {
			key := "c11_match:" + strings.ReplaceAll(id, " ", "_")
			if cls := r.Note["class"].(string); cls != "" {
				key = "c11:class:" + cls
			}
			c.Violate(key, id+": "+strings.Join(ms, " ;; "), r, strings.Join(ms, "\n"))
		} else {
			c.Outcome("same")
		}
	})
}
