//go:build verif && go1.21

package commentparser

import (
	"encoding/json"
	"fmt"
	"os"
	"strings"
	"testing"
	"time"
	"unicode/utf8"

	"github.com/google/licenseclassifier/commentparser/language"
	"verifh/vrep"
	"verifh/vx"
)

// C18: comment extraction returns exactly the comments of a source file.

func TestVerif(t *testing.T) {
	vrep.Main(t, "github.com/google/licenseclassifier/commentparser", map[string]vrep.Harness{
		"c18_lexer":   c18Lexer,
		"c18_chunks":  c18Chunks,
		"c18_long":    c18Long,
		"c18_lines":   c18Lines,
		"c18_history": c18History,
		"c18_columns": c18Columns,
	})
}

// frozen delimiter table (single-line start, multi-line start, multi-line end, nesting) per
// Language value; the harness asserts it still equals the language package's answers, a
// difference is itself a violation (the comment syntax of a language changed).
type delims struct {
	single, mstart, mend string
	nested               bool
}

var refTable = map[int]delims{
	0: {"", "", "", false}, 1: {"--", "(*", "*)", false}, 2: {"//", "/*", "*/", false}, 3: {"#", "", "", false}, 4: {"@REM", "", "", false},
	5: {"//", "/*", "*/", false}, 6: {"#", "", "", false}, 7: {";", "", "", false}, 8: {"#", "#[[", "]]", false}, 9: {"//", "/*", "*/", false},
	10: {"//", "/*", "*/", false}, 11: {"", "", "", false}, 12: {"#", "", "", false}, 13: {"//", "/*", "*/", false}, 14: {"!", "", "", false},
	15: {"//", "/*", "*/", false}, 16: {"//", "/*", "*/", false}, 17: {"", "<!--", "-->", false}, 18: {"--", "{-", "-}", false}, 19: {"//", "/*", "*/", false},
	20: {"//", "/*", "*/", false}, 21: {"//", "/*", "*/", false}, 22: {"", "", "", false}, 23: {";", "", "", false}, 24: {"", "<!--", "-->", false},
	25: {"%", "%{", "%}", false}, 26: {"#", "/*", "*/", false}, 27: {"#", "", "", false}, 28: {"//", "/*", "*/", false}, 29: {"#", "", "", false},
	30: {"#", "", "", false}, 31: {"#", "", "", false}, 32: {"#", "=begin", "=end", false}, 33: {"//", "", "", false}, 34: {"", "", "", false},
	35: {"//", "/*", "*/", false}, 36: {"//", "/*", "*/", false}, 37: {"--", "", "", false}, 38: {"//", "/*", "*/", false}, 39: {"//", "/*", "*/", false},
	40: {"#", "", "", false}, 41: {"//", "/*", "*/", true}, 42: {"//", "/*", "*/", false}, 43: {"#", "", "", false}, 44: {"//", "/*", "*/", false},
	45: {"//", "/*", "*/", false}, 46: {"", "", "", false}, 47: {"//", "/*", "*/", false}, 48: {"#", "", "", false},
}

const (
	langGo     = 16
	langHTML   = 17
	langJS     = 20
	langObjC   = 28
	langPerl   = 29
	langPython = 30
	langSQL    = 37
	langMatlab = 25
	langMySQL  = 26
)

type refComment struct {
	start, end int
	text       string
}

// refLex is the straightforward reference lexer.
func refLex(src string, lang int) []refComment {
	if len(src) == 0 {
		return nil
	}
	if !strings.HasSuffix(src, "\n") {
		src += "\n"
	}
	d := refTable[lang]
	// extra comment styles
	singles := []string{d.single}
	multis := [][2]string{{d.mstart, d.mend}}
	if lang == langSQL {
		singles = append(singles, refTable[langMySQL].single)
		multis = append(multis, [2]string{refTable[langMySQL].mstart, refTable[langMySQL].mend})
	}
	if lang == langObjC {
		singles = append(singles, refTable[langMatlab].single)
		multis = append(multis, [2]string{refTable[langMatlab].mstart, refTable[langMatlab].mend})
	}
	var out []refComment
	line := 1
	col := 0 // runes since line start
	i := 0
	adv := func() rune {
		r, size := utf8.DecodeRuneInString(src[i:])
		i += size
		if r == '\n' {
			line++
			col = 0
		} else {
			col++
		}
		return r
	}
	has := func(s string) bool { return s != "" && strings.HasPrefix(src[i:], s) }
	eat := func(s string) {
		for range s {
			adv()
		}
	}
	for i < len(src) {
		c, _ := utf8.DecodeRuneInString(src[i:])
		isQuote := lang != langHTML && (c == '"' || c == '\'' || (c == '`' && lang == langGo))
		if isQuote {
			hasEscape := c != '`'
			quote := string(c)
			doc := false
			if lang == langPython && (has("'''") || has(`"""`)) {
				quote = src[i : i+3]
				doc = col == 0
			}
			eat(quote)
			startLine := line
			var content strings.Builder
			closed := false
			for i < len(src) {
				c, _ := utf8.DecodeRuneInString(src[i:])
				if hasEscape && c == '\\' {
					adv() // the escape itself
					if i >= len(src) {
						break
					}
				} else if has(quote) {
					eat(quote)
					closed = true
					break
				} else if (lang == langJS || lang == langPerl) && c == '\n' {
					closed = true // newline terminates the string, it is not consumed
					break
				}
				r := adv()
				if doc {
					content.WriteRune(r)
				}
			}
			if !closed {
				return out // EOF in string
			}
			if doc {
				out = append(out, refComment{startLine, line, content.String()})
			}
			continue
		}
		matched := false
		for _, m := range multis {
			if has(m[0]) {
				eat(m[0])
				startLine := line
				var text strings.Builder
				nesting := 0
				closed := false
				for i < len(src) {
					if d.nested && has(m[0]) {
						text.WriteString(m[0])
						eat(m[0])
						nesting++
						continue
					}
					if has(m[1]) {
						eat(m[1])
						if nesting > 0 {
							text.WriteString(m[1])
							nesting--
							continue
						}
						closed = true
						break
					}
					text.WriteRune(adv())
				}
				if !closed {
					return out // EOF in multiline comment
				}
				out = append(out, refComment{startLine, line, text.String()})
				matched = true
				break
			}
		}
		if matched {
			continue
		}
		for _, s := range singles {
			if has(s) {
				startLine := line
				eat(s)
				var text strings.Builder
				for i < len(src) {
					c, _ := utf8.DecodeRuneInString(src[i:])
					if c == '\n' {
						break
					}
					text.WriteRune(adv())
				}
				out = append(out, refComment{startLine, line, text.String()})
				matched = true
				break
			}
		}
		if matched {
			continue
		}
		adv()
	}
	return out
}

func fmtRef(cs []refComment) string {
	var p []string
	for _, c := range cs {
		p = append(p, fmt.Sprintf("[%d-%d %q]", c.start, c.end, c.text))
	}
	return strings.Join(p, " ")
}

func fmtGot(cs Comments) string {
	var p []string
	for _, c := range cs {
		p = append(p, fmt.Sprintf("[%d-%d %q]", c.StartLine, c.EndLine, c.Text))
	}
	return strings.Join(p, " ")
}

func c18Alphabet(lang int) []string {
	d := refTable[lang]
	set := map[string]bool{}
	var out []string
	add := func(s string) {
		if s != "" && !set[s] {
			set[s] = true
			out = append(out, s)
		}
	}
	add("a")
	add("\n")
	for _, s := range []string{d.single, d.mstart, d.mend} {
		add(s)
		if len(s) <= 3 {
			for _, r := range s {
				add(string(r))
			}
		} else {
			add(s[:1])
			add(s[1:])
		}
	}
	add("\"")
	add("'")
	add("\\")
	switch lang {
	case langGo:
		add("`")
	case langPython:
		add(`"""`)
		add("'''")
	case langSQL:
		add("#")
		add("/*")
		add("*/")
	case langObjC:
		add("%")
		add("%{")
		add("%}")
	}
	add(" ")
	if c18UnicodeText {
		// comment / code TEXT beyond ASCII: 2-, 3- and 4-byte characters, the replacement character
		// written out (valid UTF-8 that decodes to utf8.RuneError), an invalid byte, a truncated sequence
		for _, s := range []string{"\u00e9", "\u4e16", "\U0001F600", "\ufffd", "\xff", "\xe2\x80", "\r", "\x00"} {
			add(s)
		}
	}
	if c18AliasText {
		// characters beyond ASCII whose code point ends in the byte of a delimiter character
		// (U+0100+c, U+2000+c: "•" is U+2022, '"' is 0x22): text, never delimiters
		seen := map[rune]bool{}
		for _, s := range []string{d.single, d.mstart, d.mend, "\"", "'"} {
			for _, r := range s {
				if r < 0x80 && !seen[r] {
					seen[r] = true
					add(string(rune(0x100) + r))
				}
			}
		}
		add("\u2022")
	}
	return out
}

// c18AliasText is set by the job parameter text=aliases (process wide).
var c18AliasText bool

// c18UnicodeText is set by the job parameter text=unicode (process wide).
var c18UnicodeText bool

func c18Lexer(c *vrep.Ctx) {
	maxLen := c.ParamInt("maxlen", c.Pick(5, 6))
	c18UnicodeText = c.Param("text", "ascii") == "unicode"
	c18AliasText = c.Param("text", "ascii") == "aliases"
	nlang := len(refTable)
	c.R.Rule = fmt.Sprintf("for every one of the %d Language values: ALL strings of <=%d symbols over that language's delimiter alphabet (each delimiter as a whole and split into its characters/fragments, plus 'a', newline, backslash, quotes, blank; Python adds triple quotes, SQL/Objective-C their extra styles) compared with a straightforward reference lexer (frozen delimiter table): same comments in order, delimiter-free text, 1-based start/end lines, nothing from inside string literals; watchdog for hangs; non-trivial = distinct (language, string) cases in which the reference finds at least one comment", nlang, maxLen)
	c.Bound("max_symbols", maxLen)
	c.Bound("languages", nlang)
	// the frozen table must still describe the language package
	for l, d := range refTable {
		lg := language.Language(l)
		if lg.SingleLineCommentStart() != d.single || lg.MultilineCommentStart() != d.mstart || lg.MultilineCommentEnd() != d.mend || lg.NestedComments() != d.nested {
			c.Violate(fmt.Sprintf("c18:table:%d", l), fmt.Sprintf("language %d: comment delimiters are now (%q,%q,%q,%v), the language's syntax is (%q,%q,%q,%v)", l,
				lg.SingleLineCommentStart(), lg.MultilineCommentStart(), lg.MultilineCommentEnd(), lg.NestedComments(), d.single, d.mstart, d.mend, d.nested), nil, "table")
		}
	}
	alph := make([][]string, nlang)
	for l := range alph {
		alph[l] = c18Alphabet(l)
	}
	cur := ""
	started := time.Time{}
	done := make(chan struct{})
	defer close(done)
	go func() {
		for {
			select {
			case <-done:
				return
			case <-time.After(time.Second):
				if !started.IsZero() && time.Since(started) > 20*time.Second {
					c.Violate("c18:hang:"+cur, "Parse did not return within 20s for "+cur, nil, "hang")
					c.R.Exhaustive = false
					if out := os.Getenv("VERIF_OUT"); out != "" {
						b, _ := json.Marshal(c.R)
						os.WriteFile(out, b, 0o644)
					}
					os.Exit(0)
				}
			}
		}
	}()
	body := func(r *vx.Run) {
		lang := r.Choose(nlang, "language")
		a := alph[lang]
		n := r.Choose(maxLen+1, "len")
		var sb strings.Builder
		for i := 0; i < n; i++ {
			sb.WriteString(a[r.Choose(len(a), "sym")])
		}
		if r.Scout() {
			return
		}
		src := sb.String()
		cur = fmt.Sprintf("lang %d %q", lang, src)
		started = time.Now()
		var got Comments
		msg := ""
		func() {
			defer func() {
				if x := recover(); x != nil {
					msg = fmt.Sprint("panic: ", x)
				}
			}()
			got = Parse([]byte(src), language.Language(lang))
		}()
		started = time.Time{}
		want := refLex(src, lang)
		if msg == "" && fmtGot(got) != fmtRef(want) {
			msg = fmt.Sprintf("Parse found %s, the reference lexer %s", fmtGot(got), fmtRef(want))
		}
		r.Note = map[string]interface{}{"lang": lang, "src": src, "msg": msg, "n": len(want)}
	}
	c.Run(vSplit(c, 0, 3), body, func(r *vx.Run) {
		if r.Note["n"].(int) > 0 {
			c.R.Nontrivial++
			if c.R.Nontrivial%200000 == 1 {
				c.Sample(map[string]interface{}{"language": r.Note["lang"], "source": r.Note["src"]})
			}
		}
		if m := r.Note["msg"].(string); m != "" {
			c.Violate(fmt.Sprintf("c18:lang%d:%q", r.Note["lang"], r.Note["src"]), fmt.Sprintf("language %d source %q: %s", r.Note["lang"], r.Note["src"], m), r, m)
		}
	})
}

func vSplit(c *vrep.Ctx, budget, depth int) *vx.Explorer {
	e := c.Explorer(budget)
	e.SplitDepth = depth
	return e
}

// c18Chunks: ChunkIterator delivers every comment once, in order, in maximal
// runs of comments on consecutive lines (a comment continues the run iff it
// starts at most one line after the previous comment started: the reading the
// repository's own ChunkIterator tests pin).
func c18Chunks(c *vrep.Ctx) {
	maxN := c.Pick(4, 5)
	c.R.Rule = fmt.Sprintf("ALL comment lists of 0..%d comments with gap (lines between the previous comment's end and this one's start) in 0..3 and span (lines covered) in 1..3: the concatenation of the chunks is the list (every comment once, in order), every chunk is non-empty and maximal under 'continues iff StartLine <= previous StartLine + 1'; the iterator terminates and closes its channel; non-trivial = distinct lists with >= 2 comments", maxN)
	c.Bound("max_comments", maxN)
	body := func(r *vx.Run) {
		n := r.Choose(maxN+1, "n")
		var list Comments
		prevEnd := 1
		for i := 0; i < n; i++ {
			gap := r.Choose(4, "gap")
			span := 1 + r.Choose(3, "span")
			start := prevEnd + gap
			list = append(list, &Comment{StartLine: start, EndLine: start + span - 1, Text: fmt.Sprintf("c%d", i)})
			prevEnd = start + span - 1
		}
		if r.Scout() {
			return
		}
		var chunks []Comments
		msg := ""
		ch := list.ChunkIterator()
		timeout := time.After(10 * time.Second)
	loop:
		for {
			select {
			case ck, ok := <-ch:
				if !ok {
					break loop
				}
				chunks = append(chunks, ck)
				if len(chunks) > 3*maxN+3 {
					msg = "iterator keeps producing chunks"
					break loop
				}
			case <-timeout:
				msg = "iterator did not close its channel within 10s (hang)"
				break loop
			}
		}
		var desc []string
		for _, cm := range list {
			desc = append(desc, fmt.Sprintf("%d-%d", cm.StartLine, cm.EndLine))
		}
		if msg == "" {
			// expected chunking
			var want [][]*Comment
			for i, cm := range list {
				if i == 0 || cm.StartLine > list[i-1].StartLine+1 {
					want = append(want, nil)
				}
				want[len(want)-1] = append(want[len(want)-1], cm)
			}
			if len(want) != len(chunks) {
				msg = fmt.Sprintf("%d chunks, want %d", len(chunks), len(want))
			} else {
				for i := range want {
					if len(want[i]) != len(chunks[i]) {
						msg = fmt.Sprintf("chunk %d has %d comments, want %d", i, len(chunks[i]), len(want[i]))
						break
					}
					for j := range want[i] {
						if want[i][j] != chunks[i][j] {
							msg = fmt.Sprintf("chunk %d element %d is not the expected comment", i, j)
						}
					}
				}
			}
		}
		r.Note = map[string]interface{}{"list": strings.Join(desc, " "), "msg": msg, "n": n}
	}
	c.Run(vSplit(c, 0, 3), body, func(r *vx.Run) {
		l := r.Note["list"].(string)
		if r.Note["n"].(int) >= 2 {
			c.R.Nontrivial++
			if c.R.Nontrivial%5000 == 1 {
				c.Sample(l)
			}
		}
		if m := r.Note["msg"].(string); m != "" {
			c.Violate("c18_chunks:"+strings.ReplaceAll(l, " ", ","), "comments at lines ["+l+"]: "+m, r, m)
		}
	})
}

// c18Long: comments LONGER than any small-buffer size: for every comment style of a handful of
// languages, a comment whose text is a filler of EVERY length 0..300 followed by a multi-byte
// character (2, 3 and 4 bytes, the replacement character written out, an invalid byte) and a tail,
// on one line and spread over lines; Parse against the reference lexer.
func c18Long(c *vrep.Ctx) {
	langs := []int{2, langPython, langHTML, 18, langGo, 32} // C-like, Python (# and docstrings), HTML, Haskell, Go, Ruby
	runes := []string{"\u00e9", "\u4e16", "\U0001F600", "\ufffd", "\xff", "z"}
	maxPad := c.Pick(300, 1100)
	c.R.Rule = fmt.Sprintf("for %d languages x every comment style they have (single line, multi line, Python docstring) x filler of EVERY length 0..%d x a closing character of 1-4 bytes (and an invalid byte) x {tail on the same line, text continuing on a second line}: Parse against the reference lexer; non-trivial = cases with a comment", len(langs), maxPad)
	c.Bound("max_filler", maxPad)
	type style struct{ open, close string }
	body := func(r *vx.Run) {
		lang := langs[r.Choose(len(langs), "language")]
		d := refTable[lang]
		var styles []style
		if d.single != "" {
			styles = append(styles, style{d.single, "\n"})
		}
		if d.mstart != "" {
			styles = append(styles, style{d.mstart, d.mend})
		}
		if lang == langPython {
			styles = append(styles, style{`"""`, `"""`})
		}
		st := styles[r.Choose(len(styles), "style")]
		if r.Scout() {
			return
		}
		pad := r.Choose(maxPad+1, "filler")
		ru := runes[r.Choose(len(runes), "character")]
		two := r.Choose(2, "second line") == 1 && st.close != "\n"
		text := strings.Repeat("x", pad) + ru + " tail"
		if two {
			text += "\nmore " + ru
		}
		src := "code()\n" + st.open + text + st.close + "\nrest()\n"
		msg := ""
		var got Comments
		func() {
			defer func() {
				if x := recover(); x != nil {
					msg = fmt.Sprint("panic: ", x)
				}
			}()
			got = Parse([]byte(src), language.Language(lang))
		}()
		want := refLex(src, lang)
		if msg == "" && fmtGot(got) != fmtRef(want) {
			msg = fmt.Sprintf("Parse found %.200s, the reference lexer %.200s", fmtGot(got), fmtRef(want))
		}
		r.Note = map[string]interface{}{"id": fmt.Sprintf("language %d style %q filler %d character %q second line %v", lang, st.open, pad, ru, two), "msg": msg, "n": len(want)}
	}
	c.Run(vSplit(c, 0, 2), body, func(r *vx.Run) {
		id := r.Note["id"].(string)
		if r.Note["n"].(int) > 0 {
			c.R.Nontrivial++
		}
		if m := r.Note["msg"].(string); m != "" {
			c.Violate("c18_long:"+strings.ReplaceAll(id, " ", "_"), id+": "+m, r, m)
		}
	})
}

// c18Lines: the comment's place in the FILE varies: every number of preceding lines 0..N (plain
// code lines, blank lines, or single-line comments), then a single-line comment, a multi-line
// comment and another single-line comment; line numbers against the reference lexer.
func c18Lines(c *vrep.Ctx) {
	langs := []int{2, langPython, langHTML, 18, langGo, 32}
	maxLines := c.Pick(2100, 70000)
	fills := []string{"code()", "", "@comment"}
	c.R.Rule = fmt.Sprintf("for %d languages x preceding lines of 3 kinds (code, blank, a single-line comment each) x EVERY count 0..%d (thorough: and around 2^12..2^16) : a single-line comment, a multi-line comment over two lines and a second single-line comment follow; Parse (comments, their text and line numbers) against the reference lexer; non-trivial = all cases", len(langs), 2100)
	c.Bound("max_preceding_lines", maxLines)
	var counts []int
	for n := 0; n <= 2100; n++ {
		counts = append(counts, n)
	}
	if c.Thorough() {
		for _, b := range []int{4096, 8192, 16384, 32768, 65536} {
			for d := -3; d <= 3; d++ {
				counts = append(counts, b+d)
			}
		}
	}
	body := func(r *vx.Run) {
		lang := langs[r.Choose(len(langs), "language")]
		fill := fills[r.Choose(len(fills), "filler kind")]
		if r.Scout() {
			return
		}
		n := counts[r.Choose(len(counts), "lines")]
		d := refTable[lang]
		single := func(t string) string {
			if d.single != "" {
				return d.single + " " + t
			}
			return d.mstart + " " + t + " " + d.mend
		}
		line := fill
		if fill == "@comment" {
			line = single("filler")
		}
		var sb strings.Builder
		for i := 0; i < n; i++ {
			sb.WriteString(line)
			sb.WriteByte('\n')
		}
		sb.WriteString("code() " + single("first") + "\n")
		if d.mstart != "" {
			sb.WriteString(d.mstart + " second\nstill second " + d.mend + "\n")
		}
		sb.WriteString(single("third") + "\nrest()\n")
		src := sb.String()
		msg := ""
		var got Comments
		func() {
			defer func() {
				if x := recover(); x != nil {
					msg = fmt.Sprint("panic: ", x)
				}
			}()
			got = Parse([]byte(src), language.Language(lang))
		}()
		want := refLex(src, lang)
		if msg == "" && fmtGot(got) != fmtRef(want) {
			g, w := fmtGot(got), fmtRef(want)
			if len(g) > 300 {
				g = "..." + g[len(g)-300:]
			}
			if len(w) > 300 {
				w = "..." + w[len(w)-300:]
			}
			msg = fmt.Sprintf("Parse found %s, the reference lexer %s", g, w)
		}
		r.Note = map[string]interface{}{"id": fmt.Sprintf("language %d, %d preceding lines of %q", lang, n, line), "msg": msg}
	}
	c.Run(vSplit(c, 0, 2), body, func(r *vx.Run) {
		c.R.Nontrivial++
		if m := r.Note["msg"].(string); m != "" {
			id := r.Note["id"].(string)
			c.Violate("c18_lines:"+strings.ReplaceAll(id, " ", "_"), id+": "+m, r, m)
		}
	})
}

// c18History: every sequence of 2..3 Parse calls over a pool of small sources in different
// languages; ALL results are kept and compared with the reference lexer only after the last call
// (a result must stay what it was when it was returned), and the chunks of the first result are
// consumed while the later sources are being parsed.
func c18History(c *vrep.Ctx) {
	type src struct {
		lang int
		text string
	}
	pool := []src{
		{2, "int a; // one\n/* two\n   lines */\nint b; // three\n// four\n"},
		{langPython, "# alpha\nx = 1  # beta\n\"\"\"doc\nstring\"\"\"\n"},
		{langGo, "// one\n// two\n\nfunc f() {} // three\n\n\n// four\n"},
		{18, "-- x\n{- y\n   z -}\nmain = 1 -- w\n"},
		{2, "no comments here\n"},
		{langHTML, "<!-- a -->\n<p>t</p>\n<!-- b\n c -->\n"},
		// languages that share a comment style with others but not all of its delimiters (Rust has //
		// like C and no /* */ here; MySQL and Matlab-style fallbacks)
		{33, "let a = 1; /* b */ let c = 2; // d\n// e\n"},
		{langSQL, "select 1; -- x\n# y\n/* z */\n"},
	}
	maxLen := c.Pick(3, 4)
	c.R.Rule = fmt.Sprintf("ALL sequences of 2..%d Parse calls over %d small sources (C, Python, Go, Haskell, HTML, Rust, SQL, one without comments): every result, checked AFTER the last call, equals the reference lexer's comments for its own source, and the chunks of the first result (consumed while the later sources are parsed) are the chunks of its own comments; non-trivial = sequences", maxLen, len(pool))
	c.Bound("max_calls", maxLen)
	chunksOf := func(cs Comments) string {
		var out []string
		for ch := range cs.ChunkIterator() {
			out = append(out, fmtGot(ch))
		}
		return strings.Join(out, " || ")
	}
	body := func(r *vx.Run) {
		n := 2 + r.Choose(maxLen-1, "len")
		seq := make([]int, n)
		for i := range seq {
			seq[i] = r.Choose(len(pool), "source")
		}
		if r.Scout() {
			return
		}
		msg := ""
		func() {
			defer func() {
				if x := recover(); x != nil {
					msg = fmt.Sprint("panic: ", x)
				}
			}()
			res := make([]Comments, n)
			res[0] = Parse([]byte(pool[seq[0]].text), language.Language(pool[seq[0]].lang))
			wantChunks := chunksOf(append(Comments(nil), res[0]...))
			var gotChunks []string
			i := 1
			for ch := range res[0].ChunkIterator() {
				gotChunks = append(gotChunks, fmtGot(ch))
				if i < n {
					res[i] = Parse([]byte(pool[seq[i]].text), language.Language(pool[seq[i]].lang))
					i++
				}
			}
			for ; i < n; i++ {
				res[i] = Parse([]byte(pool[seq[i]].text), language.Language(pool[seq[i]].lang))
			}
			for k := range res {
				want := refLex(pool[seq[k]].text, pool[seq[k]].lang)
				if fmtGot(res[k]) != fmtRef(want) && msg == "" {
					msg = fmt.Sprintf("after all calls, result %d (source %d) is %s, the reference lexer says %s", k, seq[k], fmtGot(res[k]), fmtRef(want))
				}
			}
			if g := strings.Join(gotChunks, " || "); g != wantChunks && msg == "" {
				msg = fmt.Sprintf("chunks of the first result consumed during the later calls: %s, consumed at once: %s", g, wantChunks)
			}
		}()
		r.Note = map[string]interface{}{"id": fmt.Sprint("sources ", seq), "msg": msg}
	}
	c.Run(vSplit(c, 0, 2), body, func(r *vx.Run) {
		c.R.Nontrivial++
		if m := r.Note["msg"].(string); m != "" {
			id := r.Note["id"].(string)
			c.Violate("c18_history:"+strings.ReplaceAll(id, " ", "_"), id+": "+m, r, m)
		}
	})
}

// c18Columns: a string literal that contains comment markers, opening at EVERY column 0..300 of
// its line and around the powers of two up to 2^17 (behind an identifier of that many letters, or
// that many 2-byte letters), followed by a real comment on the next line; the reference lexer
// decides. Positions inside a line are what column counters of any width see.
func c18Columns(c *vrep.Ctx) {
	langs := []int{2, langPython, langGo, 18, 32, langJS}
	var cols []int
	for n := 0; n <= 300; n++ {
		cols = append(cols, n)
	}
	for k := 9; k <= 17; k++ {
		for d := -3; d <= 3; d++ {
			cols = append(cols, 1<<k+d)
		}
	}
	if c.Thorough() {
		for _, b := range []int{3 << 15, 1 << 18} {
			for d := -3; d <= 3; d++ {
				cols = append(cols, b+d)
			}
		}
	}
	c.R.Rule = fmt.Sprintf("%d languages x string literal forms (double, single, and for Python triple quotes of both kinds; for Go raw strings) containing the language's comment markers x EVERY opening column 0..300 and 2^k-3..2^k+3 for k=9..17 (ASCII or 2-byte filler letters): Parse against the reference lexer; non-trivial = all cases", len(langs))
	body := func(r *vx.Run) {
		lang := langs[r.Choose(len(langs), "language")]
		quotes := []string{`"`, `'`}
		switch lang {
		case langPython:
			quotes = append(quotes, `"""`, `'''`)
		case langGo:
			quotes = append(quotes, "`")
		}
		q := quotes[r.Choose(len(quotes), "quote")]
		if r.Scout() {
			return
		}
		col := cols[r.Choose(len(cols), "column")]
		wide := r.Choose(2, "filler") == 1
		d := refTable[lang]
		marker := d.single
		if marker == "" {
			marker = d.mstart
		}
		single := func(t string) string {
			if d.single != "" {
				return d.single + " " + t
			}
			return d.mstart + " " + t + " " + d.mend
		}
		fill := strings.Repeat("a", col)
		if wide {
			fill = strings.Repeat("é", col)
		}
		src := fill + q + "secret " + marker + " not a comment " + d.mstart + q + "\n" + single("real") + "\nrest()\n"
		msg := ""
		var got Comments
		func() {
			defer func() {
				if x := recover(); x != nil {
					msg = fmt.Sprint("panic: ", x)
				}
			}()
			got = Parse([]byte(src), language.Language(lang))
		}()
		want := refLex(src, lang)
		if msg == "" && fmtGot(got) != fmtRef(want) {
			msg = fmt.Sprintf("Parse found %.200s, the reference lexer %.200s", fmtGot(got), fmtRef(want))
		}
		r.Note = map[string]interface{}{"id": fmt.Sprintf("language %d quote %s at column %d (2-byte filler: %v)", lang, q, col, wide), "msg": msg}
	}
	c.Run(vSplit(c, 0, 2), body, func(r *vx.Run) {
		c.R.Nontrivial++
		if m := r.Note["msg"].(string); m != "" {
			id := r.Note["id"].(string)
			c.Violate("c18_columns:"+strings.ReplaceAll(id, " ", "_"), id+": "+m, r, m)
		}
	})
}
